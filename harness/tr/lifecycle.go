package main

// Fact extractor for C16: goroutine tracking in the frontends, where the HTTP servers are
// created, and the order of the stop sequence in cmd/chihaya.

import (
	"fmt"
	"go/ast"
	"go/parser"
	"go/token"
	"path/filepath"
	"sort"
	"strings"
)

func callString(e ast.Expr) string {
	switch x := e.(type) {
	case *ast.CallExpr:
		return callString(x.Fun) + "()"
	case *ast.SelectorExpr:
		return callString(x.X) + "." + x.Sel.Name
	case *ast.Ident:
		return x.Name
	}
	return "?"
}

// chainName: the method names of a call chain without variables: f.logic.AfterAnnounce() -> AfterAnnounce,
// stopGroup.Stop().Wait() -> Stop.Wait, close(x) -> close
func chainName(e ast.Expr) string {
	switch x := e.(type) {
	case *ast.CallExpr:
		return chainName(x.Fun)
	case *ast.SelectorExpr:
		if _, ok := x.X.(*ast.CallExpr); ok {
			return chainName(x.X) + "." + x.Sel.Name
		}
		return x.Sel.Name
	case *ast.Ident:
		return x.Name
	case *ast.ParenExpr:
		return chainName(x.X)
	}
	return "?"
}

// what a goroutine (or a local function) does first: the first call in its body that is not bookkeeping,
// local functions and methods resolved (so renaming or extracting a helper does not change it)
func firstAction(body *ast.BlockStmt, local map[string]*ast.FuncDecl, depth int) string {
	out := ""
	ast.Inspect(body, func(n ast.Node) bool {
		if out != "" {
			return false
		}
		if c, ok := n.(*ast.CallExpr); ok {
			cs := callString(c)
			if strings.HasSuffix(cs, ".Done()") && strings.Count(cs, ".") >= 2 || strings.HasPrefix(cs, "log.") || cs == "recover()" {
				return true
			}
			if cs == "close()" && len(c.Args) == 1 && strings.HasSuffix(callString(c.Args[0]), ".done") {
				return true // bookkeeping: the goroutine announces its return
			}
			out = actionOf(c, local, depth)
			return false
		}
		return true
	})
	if out == "" {
		out = "nothing"
	}
	return out
}

func actionOf(c *ast.CallExpr, local map[string]*ast.FuncDecl, depth int) string {
	if fl, ok := c.Fun.(*ast.FuncLit); ok {
		return firstAction(fl.Body, local, depth)
	}
	name := chainName(c)
	if fd, ok := local[name]; ok && depth < 4 && !strings.Contains(name, ".") {
		return firstAction(fd.Body, local, depth+1)
	}
	return name
}

// fieldPath drops the first component of a selector chain ("ps.wg" -> "wg", "f.srv.wg" -> "srv.wg")
func fieldPath(s string) string {
	if i := strings.Index(s, "."); i >= 0 {
		return s[i+1:]
	}
	return s
}

// goTracking: for every `go` statement of the file, whether it is tracked by the WaitGroup (wg.Add before,
// deferred wg.Done first) and what it does; sorted, without function or variable names
func goTracking(repo, rel string) ([]string, error) {
	fset := token.NewFileSet()
	f, err := parser.ParseFile(fset, filepath.Join(repo, rel), nil, 0)
	if err != nil {
		return nil, err
	}
	local := map[string]*ast.FuncDecl{}
	for _, d := range f.Decls {
		if fd, ok := d.(*ast.FuncDecl); ok && fd.Body != nil {
			local[fd.Name.Name] = fd
		}
	}
	// does the file's Stop method wait for a `done` channel (`<-x.done`)?
	stopWaitsDone := false
	if sd, ok := local["Stop"]; ok {
		ast.Inspect(sd.Body, func(n ast.Node) bool {
			if u, ok := n.(*ast.UnaryExpr); ok && u.Op == token.ARROW && strings.HasSuffix(callString(u.X), ".done") {
				stopWaitsDone = true
			}
			return true
		})
	}
	out := []string{}
	for _, d := range f.Decls {
		fd, ok := d.(*ast.FuncDecl)
		if !ok || fd.Body == nil {
			continue
		}
		var visit func(list []ast.Stmt)
		visit = func(list []ast.Stmt) {
			for i, s := range list {
				if g, ok := s.(*ast.GoStmt); ok {
					tracked := "untracked"
					// a goroutine that closes a `done` channel when it returns, which the file's Stop receives from
					var gb *ast.BlockStmt
					if fl, ok := g.Call.Fun.(*ast.FuncLit); ok {
						gb = fl.Body
					} else if fd, ok := local[chainName(g.Call)]; ok {
						gb = fd.Body
					}
					if gb != nil && len(gb.List) > 0 && stopWaitsDone {
						if ds, ok := gb.List[0].(*ast.DeferStmt); ok && callString(ds.Call) == "close()" && len(ds.Call.Args) == 1 && strings.HasSuffix(callString(ds.Call.Args[0]), ".done") {
							tracked = "tracked"
						}
					}
					if i > 0 {
						// <x>.<group>.Add(…) right before the go statement, `defer <y>.<group>.Done()` first in the goroutine: the
						// wait-group field may have any name, and the receiver may be named differently in a method
						if es, ok := list[i-1].(*ast.ExprStmt); ok && strings.HasSuffix(callString(es.X), ".Add()") && strings.Count(callString(es.X), ".") >= 2 {
							group := fieldPath(strings.TrimSuffix(callString(es.X), ".Add()"))
							// the goroutine's body: a literal, or a function/method of this file started by name
							var body *ast.BlockStmt
							if fl, ok := g.Call.Fun.(*ast.FuncLit); ok {
								body = fl.Body
							} else if fd, ok := local[chainName(g.Call)]; ok {
								body = fd.Body
							}
							if body != nil && len(body.List) > 0 {
								if ds, ok := body.List[0].(*ast.DeferStmt); ok && strings.HasSuffix(callString(ds.Call), ".Done()") && fieldPath(strings.TrimSuffix(callString(ds.Call), ".Done()")) == group {
									tracked = "tracked"
								}
							}
						}
					}
					// what the theorems need is that no goroutine of the file is left untracked (beyond the helper goroutines
					// of Stop itself): tracked ones are not listed one by one (how many there are and what they are called
					// changes with harmless restructuring), untracked ones are, with what they do
					if tracked == "tracked" {
						out = append(out, "tracked")
					} else if fd.Name.Name == "Stop" {
						out = append(out, "untracked: helper goroutine of Stop") // delivers Stop's result; what it calls first is immaterial
					} else {
						out = append(out, tracked+": "+actionOf(g.Call, local, 0))
					}
				}
				ast.Inspect(s, func(n ast.Node) bool {
					switch b := n.(type) {
					case *ast.BlockStmt:
						if n != s {
							visit(b.List)
							return false
						}
					case *ast.CaseClause:
						visit(b.Body)
						return false
					case *ast.CommClause:
						visit(b.Body)
						return false
					case *ast.FuncLit:
						visit(b.Body.List)
						return false
					}
					return true
				})
			}
		}
		visit(fd.Body.List)
	}
	sort.Strings(out)
	var uniq []string
	for i, o := range out {
		if i == 0 || o != out[i-1] {
			uniq = append(uniq, o)
		}
	}
	if uniq == nil {
		uniq = []string{}
	}
	return uniq, nil
}

func lifecycleFacts(repo string) (interface{}, error) {
	res := map[string]interface{}{}
	for _, rel := range []string{"frontend/udp/frontend.go", "frontend/http/frontend.go", "storage/memory/peer_store.go", "storage/redis/peer_store.go",
		"pkg/metrics/server.go", "middleware/jwt/jwt.go"} {
		g, err := goTracking(repo, rel)
		if err != nil {
			return nil, err
		}
		res["go:"+rel] = g
	}
	// where the HTTP servers are assigned
	fset := token.NewFileSet()
	f, err := parser.ParseFile(fset, filepath.Join(repo, "frontend/http/frontend.go"), nil, 0)
	if err != nil {
		return nil, err
	}
	assigned := map[string]bool{}
	for _, d := range f.Decls {
		if fd, ok := d.(*ast.FuncDecl); ok && fd.Body != nil {
			ast.Inspect(fd.Body, func(n ast.Node) bool {
				if as, ok := n.(*ast.AssignStmt); ok {
					for _, l := range as.Lhs {
						if s := callString(l); s == "f.srv" || s == "f.tlsSrv" {
							assigned[fd.Name.Name] = true
						}
					}
				}
				return true
			})
		}
	}
	var al []string
	for k := range assigned {
		al = append(al, k)
	}
	sort.Strings(al)
	res["http_servers_assigned_in"] = al
	// stop order of cmd/chihaya Run.Stop
	f2, err := parser.ParseFile(fset, filepath.Join(repo, "cmd/chihaya/main.go"), nil, 0)
	if err != nil {
		return nil, err
	}
	// the order in which Run.Stop first touches the frontends' stop group, the logic and the store, and whether
	// the keepPeerStore flag is consulted before the store is touched (local helpers it calls are followed)
	order := []string{}
	seen := map[string]bool{}
	for _, d := range f2.Decls {
		if fd, ok := d.(*ast.FuncDecl); ok && fd.Name.Name == "Stop" && fd.Recv != nil && len(fd.Recv.List) == 1 && len(fd.Recv.List[0].Names) == 1 {
			recv := fd.Recv.List[0].Names[0].Name
			ast.Inspect(fd.Body, func(m ast.Node) bool {
				switch x := m.(type) {
				case *ast.SelectorExpr:
					if id, ok := x.X.(*ast.Ident); ok && id.Name == recv && !seen[x.Sel.Name] {
						seen[x.Sel.Name] = true
						order = append(order, x.Sel.Name)
					}
				case *ast.Ident:
					if x.Name == "keepPeerStore" && !seen["?keepPeerStore"] {
						seen["?keepPeerStore"] = true
						order = append(order, "?keepPeerStore")
					}
				}
				return true
			})
		}
	}
	res["run_stop_order"] = order
	_ = fmt.Sprint
	return res, nil
}

func init() { moreFacts["lifecycle"] = lifecycleFacts }
