package main

// Fact extractor for C16: goroutine tracking in the frontends, where the HTTP servers are
// created, and the order of the stop sequence in cmd/chihaya.

import (
	"fmt"
	"go/ast"
	"go/parser"
	"go/token"
	"path/filepath"
	"sort"
	"strings"
)

func callString(e ast.Expr) string {
	switch x := e.(type) {
	case *ast.CallExpr:
		return callString(x.Fun) + "()"
	case *ast.SelectorExpr:
		return callString(x.X) + "." + x.Sel.Name
	case *ast.Ident:
		return x.Name
	}
	return "?"
}

func goTracking(repo, rel string) (map[string][]string, error) {
	fset := token.NewFileSet()
	f, err := parser.ParseFile(fset, filepath.Join(repo, rel), nil, 0)
	if err != nil {
		return nil, err
	}
	out := map[string][]string{}
	for _, d := range f.Decls {
		fd, ok := d.(*ast.FuncDecl)
		if !ok || fd.Body == nil {
			continue
		}
		var visit func(list []ast.Stmt)
		visit = func(list []ast.Stmt) {
			for i, s := range list {
				if g, ok := s.(*ast.GoStmt); ok {
					tracked := "untracked"
					if i > 0 {
						if es, ok := list[i-1].(*ast.ExprStmt); ok && strings.HasSuffix(callString(es.X), ".wg.Add()") {
							if fl, ok := g.Call.Fun.(*ast.FuncLit); ok && len(fl.Body.List) > 0 {
								if ds, ok := fl.Body.List[0].(*ast.DeferStmt); ok && strings.HasSuffix(callString(ds.Call), ".wg.Done()") {
									tracked = "tracked"
								}
							}
						}
					}
					what := "func"
					if fl, ok := g.Call.Fun.(*ast.FuncLit); ok {
						// name the first call inside for readability
						ast.Inspect(fl.Body, func(n ast.Node) bool {
							if c, ok := n.(*ast.CallExpr); ok && what == "func" {
								cs := callString(c)
								if !strings.HasSuffix(cs, ".wg.Done()") {
									what = cs
								}
							}
							return true
						})
					} else {
						what = callString(g.Call)
					}
					out[fd.Name.Name] = append(out[fd.Name.Name], tracked+": go "+what)
				}
				// recurse into nested blocks
				ast.Inspect(s, func(n ast.Node) bool {
					switch b := n.(type) {
					case *ast.BlockStmt:
						if n != s {
							visit(b.List)
							return false
						}
					case *ast.CaseClause:
						visit(b.Body)
						return false
					case *ast.CommClause:
						visit(b.Body)
						return false
					case *ast.FuncLit:
						visit(b.Body.List)
						return false
					}
					return true
				})
			}
		}
		visit(fd.Body.List)
	}
	return out, nil
}

func lifecycleFacts(repo string) (interface{}, error) {
	res := map[string]interface{}{}
	for _, rel := range []string{"frontend/udp/frontend.go", "frontend/http/frontend.go"} {
		g, err := goTracking(repo, rel)
		if err != nil {
			return nil, err
		}
		res["go:"+rel] = g
	}
	// where the HTTP servers are assigned
	fset := token.NewFileSet()
	f, err := parser.ParseFile(fset, filepath.Join(repo, "frontend/http/frontend.go"), nil, 0)
	if err != nil {
		return nil, err
	}
	assigned := map[string]bool{}
	for _, d := range f.Decls {
		if fd, ok := d.(*ast.FuncDecl); ok && fd.Body != nil {
			ast.Inspect(fd.Body, func(n ast.Node) bool {
				if as, ok := n.(*ast.AssignStmt); ok {
					for _, l := range as.Lhs {
						if s := callString(l); s == "f.srv" || s == "f.tlsSrv" {
							assigned[fd.Name.Name] = true
						}
					}
				}
				return true
			})
		}
	}
	var al []string
	for k := range assigned {
		al = append(al, k)
	}
	sort.Strings(al)
	res["http_servers_assigned_in"] = al
	// stop order of cmd/chihaya Run.Stop
	f2, err := parser.ParseFile(fset, filepath.Join(repo, "cmd/chihaya/main.go"), nil, 0)
	if err != nil {
		return nil, err
	}
	var order []string
	for _, d := range f2.Decls {
		if fd, ok := d.(*ast.FuncDecl); ok && fd.Name.Name == "Stop" && fd.Recv != nil {
			var walk func(n ast.Node, guard string)
			walk = func(n ast.Node, guard string) {
				ast.Inspect(n, func(m ast.Node) bool {
					if ifs, ok := m.(*ast.IfStmt); ok && m != n {
						cond := ""
						if u, ok := ifs.Cond.(*ast.UnaryExpr); ok && u.Op == token.NOT {
							cond = "!" + callString(u.X)
						}
						if ifs.Init != nil {
							walk(ifs.Init, guard)
						}
						g := guard
						if cond != "" {
							g = guard + "[if " + cond + "]"
						}
						walk(ifs.Body, g)
						return false
					}
					if c, ok := m.(*ast.CallExpr); ok {
						if s := callString(c); strings.HasSuffix(s, ".Stop()") {
							order = append(order, guard+s)
						}
					}
					return true
				})
			}
			walk(fd.Body, "")
		}
	}
	res["run_stop_order"] = order
	_ = fmt.Sprint
	return res, nil
}

func init() { moreFacts["lifecycle"] = lifecycleFacts }
