//go:build verif

package memory

// Race-detector stress for C04: every store operation, the expiry pass and the metrics aggregation
// running concurrently on the same swarms. Injected into the package by overlay; never part of /repo.

import (
	"net"
	"sync"
	"testing"
	"time"

	"github.com/chihaya/chihaya/bittorrent"
)

func TestVerifStoreRace(t *testing.T) {
	s, err := New(Config{ShardCount: 2, GarbageCollectionInterval: time.Hour, PrometheusReportingInterval: time.Hour, PeerLifetime: time.Hour})
	if err != nil {
		t.Fatal(err)
	}
	ps := s.(*peerStore)
	ihs := []bittorrent.InfoHash{bittorrent.InfoHashFromString("aaaaaaaaaaaaaaaaaaaa"), bittorrent.InfoHashFromString("bbbbbbbbbbbbbbbbbbbb")}
	peer := func(i int) bittorrent.Peer {
		return bittorrent.Peer{ID: bittorrent.PeerIDFromString("-VF0001-00000000000" + string(rune('0'+i%4))), Port: uint16(1000 + i%3),
			IP: bittorrent.IP{IP: net.IP{10, 0, 0, byte(i % 3)}, AddressFamily: bittorrent.IPv4}}
	}
	var wg sync.WaitGroup
	stop := make(chan struct{})
	for w := 0; w < 4; w++ {
		wg.Add(1)
		go func(w int) {
			defer wg.Done()
			for i := 0; ; i++ {
				select {
				case <-stop:
					return
				default:
				}
				ih, p := ihs[(i+w)%2], peer(i+w)
				switch (i + w) % 7 {
				case 0:
					_ = ps.PutSeeder(ih, p)
				case 1:
					_ = ps.PutLeecher(ih, p)
				case 2:
					_ = ps.GraduateLeecher(ih, p)
				case 3:
					_ = ps.DeleteSeeder(ih, p)
				case 4:
					_ = ps.DeleteLeecher(ih, p)
				case 5:
					_, _ = ps.AnnouncePeers(ih, i%2 == 0, 5, p)
				case 6:
					_ = ps.ScrapeSwarm(ih, bittorrent.IPv4)
				}
			}
		}(w)
	}
	wg.Add(2)
	go func() {
		defer wg.Done()
		for {
			select {
			case <-stop:
				return
			default:
				_ = ps.collectGarbage(time.Now().Add(-time.Millisecond))
			}
		}
	}()
	go func() {
		defer wg.Done()
		for {
			select {
			case <-stop:
				return
			default:
				ps.populateProm()
			}
		}
	}()
	time.Sleep(400 * time.Millisecond)
	close(stop)
	wg.Wait()
}
