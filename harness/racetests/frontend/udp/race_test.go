//go:build verif

package udp

// Race-detector stress for C04: connects, announces and scrapes from many sources through one
// Frontend (shared connection-ID generator pool, shared byte-buffer pool). Injected by overlay.

import (
	"context"
	"encoding/binary"
	"net"
	"sync"
	"testing"
	"time"

	"github.com/chihaya/chihaya/bittorrent"
)

type raceLogic struct{}

func (raceLogic) HandleAnnounce(ctx context.Context, req *bittorrent.AnnounceRequest) (context.Context, *bittorrent.AnnounceResponse, error) {
	return ctx, &bittorrent.AnnounceResponse{Interval: time.Minute, IPv4Peers: []bittorrent.Peer{req.Peer}}, nil
}
func (raceLogic) AfterAnnounce(context.Context, *bittorrent.AnnounceRequest, *bittorrent.AnnounceResponse) {}
func (raceLogic) HandleScrape(ctx context.Context, req *bittorrent.ScrapeRequest) (context.Context, *bittorrent.ScrapeResponse, error) {
	return ctx, &bittorrent.ScrapeResponse{Files: make([]bittorrent.Scrape, len(req.InfoHashes))}, nil
}
func (raceLogic) AfterScrape(context.Context, *bittorrent.ScrapeRequest, *bittorrent.ScrapeResponse) {}

func TestVerifUDPRace(t *testing.T) {
	fe, err := VerifNewFrontend(raceLogic{}, Config{PrivateKey: "race-key", MaxClockSkew: 10 * time.Second})
	if err != nil {
		t.Fatal(err)
	}
	defer fe.VerifClose()
	sink, err := net.ListenUDP("udp", &net.UDPAddr{IP: net.IPv4(127, 0, 0, 1)})
	if err != nil {
		t.Fatal(err)
	}
	defer sink.Close()
	go func() {
		b := make([]byte, 65536)
		for {
			if _, _, err := sink.ReadFromUDP(b); err != nil {
				return
			}
		}
	}()
	to := sink.LocalAddr().(*net.UDPAddr)
	var wg sync.WaitGroup
	for w := 0; w < 8; w++ {
		wg.Add(1)
		go func(w int) {
			defer wg.Done()
			for i := 0; i < 3000; i++ {
				src := net.IP{10, byte(w), byte(i >> 8), byte(i)}
				connect := []byte{0, 0, 0x04, 0x17, 0x27, 0x10, 0x19, 0x80, 0, 0, 0, 0, 1, 2, 3, 4}
				_ = fe.VerifHandle(connect, src, to)
				id := NewConnectionID(src, time.Now(), "race-key")
				ann := make([]byte, 98)
				copy(ann, id)
				binary.BigEndian.PutUint32(ann[8:12], 1)
				binary.BigEndian.PutUint16(ann[96:98], 6881)
				_ = fe.VerifHandle(ann, src, to)
				scr := make([]byte, 36)
				copy(scr, id)
				binary.BigEndian.PutUint32(scr[8:12], 2)
				_ = fe.VerifHandle(scr, src, to)
			}
		}(w)
	}
	wg.Wait()
}
