//go:build verif

package http

// Race-detector stress for C04/C08: responses written concurrently through the bencode encoder
// (shared buffers must not outlive the write). Injected by overlay.

import (
	"net"
	"net/http/httptest"
	"sync"
	"testing"
	"time"

	"github.com/chihaya/chihaya/bittorrent"
)

func TestVerifHTTPWriteRace(t *testing.T) {
	var wg sync.WaitGroup
	for w := 0; w < 8; w++ {
		wg.Add(1)
		go func(w int) {
			defer wg.Done()
			for i := 0; i < 2000; i++ {
				rec := httptest.NewRecorder()
				resp := &bittorrent.AnnounceResponse{Compact: i%2 == 0, Interval: time.Duration(w+1) * time.Minute, MinInterval: time.Minute, Complete: uint32(w), Incomplete: uint32(i)}
				for k := 0; k < 1+i%5; k++ {
					resp.IPv4Peers = append(resp.IPv4Peers, bittorrent.Peer{ID: bittorrent.PeerIDFromString("-RC0001-000000000000"), Port: uint16(1000 + k),
						IP: bittorrent.IP{IP: net.IP{10, byte(w), 0, byte(k)}, AddressFamily: bittorrent.IPv4}})
				}
				if err := WriteAnnounceResponse(rec, resp); err != nil {
					t.Error(err)
					return
				}
				sr := &bittorrent.ScrapeResponse{Files: []bittorrent.Scrape{{InfoHash: bittorrent.InfoHashFromString("aaaaaaaaaaaaaaaaaaaa"), Complete: uint32(i)}}}
				if err := WriteScrapeResponse(httptest.NewRecorder(), sr); err != nil {
					t.Error(err)
					return
				}
				_ = WriteError(httptest.NewRecorder(), bittorrent.ClientError("nope"))
			}
		}(w)
	}
	wg.Wait()
}
