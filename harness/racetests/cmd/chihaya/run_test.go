//go:build verif

package main

// C16 through cmd/chihaya's own Run: Stop (shutdown or reload) must not complete while an accepted request's
// post-response hooks are still running — however long they take. Injected by overlay; never part of /repo.

import (
	"context"
	"fmt"
	"net"
	"net/http"
	"os"
	"path/filepath"
	"sync/atomic"
	"testing"
	"time"

	"github.com/chihaya/chihaya/bittorrent"
	"github.com/chihaya/chihaya/middleware"
)

type verifBlockingHook struct{}

var (
	verifGate    = make(chan struct{})
	verifEntered int32
	verifLeft    int32
)

func (verifBlockingHook) HandleAnnounce(ctx context.Context, _ *bittorrent.AnnounceRequest, _ *bittorrent.AnnounceResponse) (context.Context, error) {
	atomic.AddInt32(&verifEntered, 1)
	<-verifGate
	atomic.AddInt32(&verifLeft, 1)
	return ctx, nil
}
func (verifBlockingHook) HandleScrape(ctx context.Context, _ *bittorrent.ScrapeRequest, _ *bittorrent.ScrapeResponse) (context.Context, error) {
	return ctx, nil
}

type verifDriver struct{}

func (verifDriver) NewHook([]byte) (middleware.Hook, error) { return verifBlockingHook{}, nil }

func TestVerifRunStopWaits(t *testing.T) {
	middleware.RegisterDriver("verif blocking post", verifDriver{})
	l, err := net.Listen("tcp", "127.0.0.1:0")
	if err != nil {
		t.Fatal(err)
	}
	port := l.Addr().(*net.TCPAddr).Port
	l.Close()
	dir := t.TempDir()
	cfg := fmt.Sprintf("chihaya:\n  announce_interval: 30m\n  min_announce_interval: 15m\n  metrics_addr: \"\"\n  http:\n    addr: \"127.0.0.1:%d\"\n    announce_routes: [\"/announce\"]\n    scrape_routes: [\"/scrape\"]\n    read_timeout: 5s\n    write_timeout: 5s\n  storage:\n    name: memory\n    config:\n      shard_count: 1\n  posthooks:\n  - name: verif blocking post\n", port)
	path := filepath.Join(dir, "c.yaml")
	if err := os.WriteFile(path, []byte(cfg), 0o600); err != nil {
		t.Fatal(err)
	}
	r, err := NewRun(path)
	if err != nil {
		t.Fatal(err)
	}
	cl := &http.Client{Timeout: 2 * time.Second}
	url := fmt.Sprintf("http://127.0.0.1:%d/announce?info_hash=aaaaaaaaaaaaaaaaaaaa&peer_id=bbbbbbbbbbbbbbbbbbbb&port=6881&left=5&downloaded=0&uploaded=0", port)
	ok := false
	for i := 0; i < 200 && !ok; i++ {
		if resp, err := cl.Get(url); err == nil {
			resp.Body.Close()
			ok = true
		} else {
			time.Sleep(10 * time.Millisecond)
		}
	}
	if !ok {
		t.Fatal("the tracker never served")
	}
	for i := 0; i < 500 && atomic.LoadInt32(&verifEntered) == 0; i++ {
		time.Sleep(2 * time.Millisecond)
	}
	if atomic.LoadInt32(&verifEntered) == 0 {
		t.Fatal("the post-response hook was not entered")
	}
	done := make(chan error, 1)
	go func() { _, err := r.Stop(false); done <- err }()
	select {
	case <-done:
		t.Fatalf("Run.Stop completed while a post-response hook was still running (entered %d, left %d)", atomic.LoadInt32(&verifEntered), atomic.LoadInt32(&verifLeft))
	case <-time.After(6500 * time.Millisecond):
	}
	close(verifGate)
	select {
	case err := <-done:
		if err != nil {
			t.Fatalf("Run.Stop reported %v", err)
		}
	case <-time.After(5 * time.Second):
		t.Fatal("Run.Stop did not complete after the hook had returned")
	}
}
