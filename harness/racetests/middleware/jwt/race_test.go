//go:build verif

package jwt

import (
	"context"
	"encoding/json"
	"net/http"
	"net/http/httptest"
	"sync"
	"testing"
	"time"

	"github.com/chihaya/chihaya/bittorrent"
)

type ps struct{ s string }

func (p ps) String(k string) (string, bool) { return p.s, k == "jwt" }
func (p ps) RawPath() string                { return "" }
func (p ps) RawQuery() string               { return "" }

func TestRefreshRace(t *testing.T) {
	srv := httptest.NewServer(http.HandlerFunc(func(w http.ResponseWriter, r *http.Request) {
		_ = json.NewEncoder(w).Encode(map[string]interface{}{"keys": []interface{}{}})
	}))
	defer srv.Close()
	h, err := NewHook(Config{Issuer: "i", Audience: "a", JWKSetURL: srv.URL, JWKUpdateInterval: time.Hour})
	if err != nil {
		t.Fatal(err)
	}
	var wg sync.WaitGroup
	wg.Add(2)
	go func() {
		defer wg.Done()
		for i := 0; i < 50; i++ {
			_ = h.(*hook).updateKeys()
		}
	}()
	go func() {
		defer wg.Done()
		for i := 0; i < 2000; i++ {
			_, _ = h.HandleAnnounce(context.Background(), &bittorrent.AnnounceRequest{Params: ps{"a.b.c"}}, nil)
		}
	}()
	wg.Wait()
}
