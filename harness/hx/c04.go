package main

// C04: real concurrent executions.
//  (a) memory / Redis store: goroutines run store operations on the same swarm and the same peers;
//      the observed results and the final state must be those of *some* sequential order consistent
//      with program order and real-time order. The harness searches such an order with a tiny
//      sequential spec of one swarm and emits the operations in that order, with the concurrently
//      observed results, as ordinary st.* lines: the Lean model replays them and must agree.
//  (b) UDP: concurrent datagrams through one Frontend (shared byte/buffer/generator pools); every
//      response must be the model's response for its own request.

import (
	"context"
	"encoding/binary"
	"fmt"
	"github.com/chihaya/chihaya/storage/memory"
	"github.com/chihaya/chihaya/storage/redis"
	"net"
	"runtime"
	"sort"
	"strconv"
	"strings"
	"sync"
	"sync/atomic"
	"time"

	"github.com/chihaya/chihaya/bittorrent"
	udpfe "github.com/chihaya/chihaya/frontend/udp"
	"github.com/chihaya/chihaya/pkg/timecache"
)

func init() { gens["C04"] = &Gen{Run: runC04, Replay: replayStore} }

type cop struct {
	thread     int
	op         string
	args       map[string]string
	start, end int64 // logical timestamps
	obs        string
	line       string
}

// tiny sequential spec of one swarm family: role and presence per peer key
type miniSwarm struct{ s, l map[string]bool }

func (m *miniSwarm) clone() *miniSwarm {
	c := &miniSwarm{s: map[string]bool{}, l: map[string]bool{}}
	for k := range m.s {
		c.s[k] = true
	}
	for k := range m.l {
		c.l[k] = true
	}
	return c
}

// apply returns the result the spec gives, "" when the op's result is not constrained by the spec
func (m *miniSwarm) apply(o *cop) string {
	pk := o.args["pk"]
	switch o.op {
	case "st.put_seeder", "st.graduate":
		m.s[pk] = true
		delete(m.l, pk)
		return "ok"
	case "st.put_leecher":
		m.l[pk] = true
		delete(m.s, pk)
		return "ok"
	case "st.del_seeder":
		if m.s[pk] {
			delete(m.s, pk)
			return "ok"
		}
		return "notexist"
	case "st.del_leecher":
		if m.l[pk] {
			delete(m.l, pk)
			return "ok"
		}
		return "notexist"
	case "st.scrape":
		return fmt.Sprintf("c=%d i=%d", len(m.s), len(m.l))
	}
	return ""
}

// linearize searches an order of ops consistent with real time (a.end < b.start => a before b),
// with the observed results, and with the final membership.
func linearize(ops []*cop, init *miniSwarm, finalS, finalL map[string]bool) []*cop {
	n := len(ops)
	used := make([]bool, n)
	var order []*cop
	var rec func(m *miniSwarm) bool
	rec = func(m *miniSwarm) bool {
		if len(order) == n {
			if len(m.s) != len(finalS) || len(m.l) != len(finalL) {
				return false
			}
			for k := range finalS {
				if !m.s[k] {
					return false
				}
			}
			for k := range finalL {
				if !m.l[k] {
					return false
				}
			}
			return true
		}
		for i, o := range ops {
			if used[i] {
				continue
			}
			// o may come next only if no unused op finished before o started
			ok := true
			for j, p := range ops {
				if !used[j] && j != i && p.end < o.start {
					ok = false
					break
				}
			}
			if !ok {
				continue
			}
			m2 := m.clone()
			if r := m2.apply(o); r != "" && r != o.obs {
				continue
			}
			used[i] = true
			order = append(order, o)
			if rec(m2) {
				return true
			}
			order = order[:len(order)-1]
			used[i] = false
		}
		return false
	}
	if rec(init) {
		return append([]*cop{}, order...)
	}
	return nil
}

func concurrentStoreRound(c *Ctx, r *Rng, kind string, round int) {
	n := []int{1, 2, 1024}[r.Intn(3)]
	insts := 1
	if kind == "redis" {
		insts = 1 + r.Intn(3)
	}
	storeOp(c, "st.reset", map[string]string{"n": strconv.Itoa(n), "kind": kind, "instances": strconv.Itoa(insts)})
	clock := int64(1700000000e9) + int64(round)*1e9
	storeOp(c, "st.clock", map[string]string{"t": strconv.FormatInt(clock, 10)})
	u := mkUniverse(r, 1, 3)
	ih := hx(u.ihs[0])
	// all peers of one family so that they share the swarm
	fam4 := len(u.peers[0]) == 26
	var peers []string
	for _, p := range u.peers {
		if (len(p) == 26) == fam4 {
			peers = append(peers, hx(p))
		}
	}
	fam := "4"
	if !fam4 {
		fam = "6"
	}
	// sequential prefix
	init := &miniSwarm{s: map[string]bool{}, l: map[string]bool{}}
	for i := 0; i < r.Intn(4); i++ {
		o := &cop{op: []string{"st.put_seeder", "st.put_leecher"}[r.Intn(2)], args: map[string]string{"ih": ih, "pk": peers[r.Intn(len(peers))], "inst": "0"}}
		storeOp(c, o.op, o.args)
		init.apply(o)
	}
	// concurrent phase
	threads := 2 + r.Intn(2)
	var ops []*cop
	progs := make([][]*cop, threads)
	for t := 0; t < threads; t++ {
		for k := 0; k < 1+r.Intn(3); k++ {
			name := []string{"st.put_seeder", "st.put_leecher", "st.graduate", "st.del_seeder", "st.del_leecher", "st.scrape"}[r.Intn(6)]
			a := map[string]string{"ih": ih, "inst": strconv.Itoa(r.Intn(insts))}
			if name == "st.scrape" {
				if kind == "redis" {
					name = "st.put_leecher" // a Redis scrape is two round trips, not one step: not part of the claim
					a["pk"] = peers[r.Intn(len(peers))]
				} else {
					a["fam"] = fam
				}
			} else {
				a["pk"] = peers[r.Intn(len(peers))]
			}
			o := &cop{thread: t, op: name, args: a}
			progs[t] = append(progs[t], o)
			ops = append(ops, o)
		}
	}
	var tick int64
	var wg sync.WaitGroup
	rec := &recCtx{}
	startGate := make(chan struct{})
	for t := 0; t < threads; t++ {
		wg.Add(1)
		go func(t int) {
			defer wg.Done()
			<-startGate
			for _, o := range progs[t] {
				if t%2 == 0 {
					runtime.Gosched()
				}
				o.start = atomic.AddInt64(&tick, 1)
				o.line, o.obs = rec.run(o.op, o.args)
				o.end = atomic.AddInt64(&tick, 1)
			}
		}(t)
	}
	close(startGate)
	wg.Wait()
	// final membership as the implementation sees it
	finalS, finalL := finalMembership(u.ihs[0], fam4)
	order := linearize(ops, init, finalS, finalL)
	if order == nil {
		// report in invocation order; the marker makes the line diverge from the model
		sort.Slice(ops, func(i, j int) bool { return ops[i].start < ops[j].start })
		for _, o := range ops {
			c.Emit(o.line+" thread="+strconv.Itoa(o.thread), o.obs+" NOT-LINEARIZABLE")
		}
		c.Kind("not-linearizable")
	} else {
		for _, o := range order {
			c.Emit(o.line+" thread="+strconv.Itoa(o.thread), o.obs)
		}
		c.Kind(fmt.Sprintf("linearized-%d-ops", len(ops)))
	}
	storeOp(c, "st.dump", map[string]string{})
	storeOp(c, "st.totals", map[string]string{"inst": "0"})
}

// recCtx executes an st.* op on the real store without emitting (returns line and observation)
type recCtx struct{}

func (rc *recCtx) run(op string, a map[string]string) (string, string) {
	tmp := &Ctx{Kinds: map[string]int{}}
	var line, obs string
	tmp.emitHook = func(l, o string) { line, obs = l, o }
	storeOp(tmp, op, a)
	return line, obs
}

func finalMembership(ih []byte, fam4 bool) (map[string]bool, map[string]bool) {
	S, L := map[string]bool{}, map[string]bool{}
	d := storeDump()
	// parse the canonical dump: entries "<fam>:<ih> S={k@t,...} L={...}" (memory) or "<fam><S|L>:<ih>={...}" (redis)
	famTag := "v4"
	if !fam4 {
		famTag = "v6"
	}
	h := hx(ih)
	grab := func(s string, into map[string]bool) {
		s = strings.Trim(s, "{}")
		if s == "" {
			return
		}
		for _, e := range strings.Split(s, ",") {
			into[strings.SplitN(e, "@", 2)[0]] = true
		}
	}
	for _, f := range strings.Fields(strings.NewReplacer("[", " ", "]", " ").Replace(d)) {
		switch {
		case strings.HasPrefix(f, famTag+"S:"+h+"="):
			grab(strings.SplitN(f, "=", 2)[1], S)
		case strings.HasPrefix(f, famTag+"L:"+h+"="):
			grab(strings.SplitN(f, "=", 2)[1], L)
		}
	}
	if rig.kind != "redis" {
		// memory dump: "v4:<ih> S={..} L={..}"
		fs := strings.Fields(strings.NewReplacer("[", " ", "]", " ").Replace(d))
		for i, f := range fs {
			if f == famTag+":"+h && i+2 < len(fs) {
				grab(strings.TrimPrefix(fs[i+1], "S="), S)
				grab(strings.TrimPrefix(fs[i+2], "L="), L)
			}
		}
	}
	return S, L
}

// ---- (b) concurrent datagrams through one frontend --------------------------------------------

// contendedBatch: on one store, many micro-rounds in which K goroutines leave a spin barrier together and
// hit the *same* peer of a fresh swarm with state-changing operations (the retransmitted stop, the stop
// racing a completed, ...). Linearizability is judged per micro-round; the counters are read at the end.
func contendedBatch(c *Ctx, r *Rng, kind string, round, micro int) {
	n := []int{1, 2, 1024}[r.Intn(3)]
	storeOp(c, "st.reset", map[string]string{"n": strconv.Itoa(n), "kind": kind, "instances": "1"})
	storeOp(c, "st.clock", map[string]string{"t": strconv.FormatInt(int64(1700000000e9)+int64(round)*1e9, 10)})
	menus := [][]string{
		{"st.del_leecher", "st.del_leecher", "st.del_leecher", "st.del_leecher"},
		{"st.del_seeder", "st.del_seeder", "st.del_seeder", "st.del_seeder"},
		{"st.del_leecher", "st.graduate", "st.del_leecher", "st.put_seeder"},
		{"st.put_leecher", "st.put_leecher", "st.put_seeder", "st.graduate"},
		{"st.graduate", "st.graduate", "st.del_seeder", "st.del_leecher"},
		{"st.put_seeder", "st.del_seeder", "st.put_leecher", "st.del_leecher"},
	}
	for m := 0; m < micro; m++ {
		ihb := r.Bytes(20)
		ih := hx(ihb)
		pkb := append(append(r.Bytes(20), 0x1a, 0xe1), 10, 0, 0, byte(1+r.Intn(3)))
		pk := hx(pkb)
		init := &miniSwarm{s: map[string]bool{}, l: map[string]bool{}}
		menu := menus[r.Intn(len(menus))]
		pre := "st.put_leecher"
		if menu[0] == "st.del_seeder" || r.Intn(4) == 0 {
			pre = "st.put_seeder"
		}
		if r.Intn(8) != 0 {
			o := &cop{op: pre, args: map[string]string{"ih": ih, "pk": pk, "inst": "0"}}
			storeOp(c, o.op, o.args)
			init.apply(o)
		}
		K := len(menu)
		ops := make([]*cop, K)
		for t := 0; t < K; t++ {
			ops[t] = &cop{thread: t, op: menu[t], args: map[string]string{"ih": ih, "pk": pk, "inst": "0"}}
		}
		var tick int64
		var ready int32
		var wg sync.WaitGroup
		rec := &recCtx{}
		for t := 0; t < K; t++ {
			wg.Add(1)
			go func(o *cop) {
				defer wg.Done()
				atomic.AddInt32(&ready, 1)
				for atomic.LoadInt32(&ready) < int32(K) {
				}
				o.start = atomic.AddInt64(&tick, 1)
				o.line, o.obs = rec.run(o.op, o.args)
				o.end = atomic.AddInt64(&tick, 1)
			}(ops[t])
		}
		wg.Wait()
		finalS, finalL := finalMembership(ihb, true)
		order := linearize(ops, init, finalS, finalL)
		if order == nil {
			sort.Slice(ops, func(i, j int) bool { return ops[i].start < ops[j].start })
			for _, o := range ops {
				c.Emit(o.line+" thread="+strconv.Itoa(o.thread), o.obs+" NOT-LINEARIZABLE")
			}
			c.Kind("contended-not-linearizable")
		} else {
			for _, o := range order {
				c.Emit(o.line+" thread="+strconv.Itoa(o.thread), o.obs)
			}
			c.Kind("contended-linearized-" + strings.Join([]string{menu[0][3:], menu[1][3:]}, "+"))
		}
		if m%10 == 9 || m == micro-1 {
			storeOp(c, "st.totals", map[string]string{"inst": "0"})
		}
	}
	storeOp(c, "st.dump", map[string]string{})
}

// gcChurn: expiry passes (with a cutoff that expires nobody) run while workers empty and re-create their own
// swarms. Workers own disjoint swarms and the passes remove nothing, so every interleaving is equivalent to
// "worker 0's program, worker 1's program, …, the passes": that order is emitted, with the concurrently
// observed results, and the final state must be the model's (every swarm present with its peer).
func gcChurn(c *Ctx, r *Rng, round int) {
	n := []int{1, 2, 4}[r.Intn(3)]
	storeOp(c, "st.reset", map[string]string{"n": strconv.Itoa(n), "kind": "memory", "instances": "1"})
	t0 := int64(1700000000e9) + int64(round)*1e9
	storeOp(c, "st.clock", map[string]string{"t": strconv.FormatInt(t0, 10)})
	const workers, swarms, rounds = 4, 24, 12
	type own struct{ ih, pk string }
	owned := make([][]own, workers)
	for w := 0; w < workers; w++ {
		for k := 0; k < swarms; k++ {
			ih := r.Bytes(20)
			binary.BigEndian.PutUint32(ih[:4], uint32(r.Intn(4)))
			pk := append(append(r.Bytes(20), 0x1a, 0xe1), 10, byte(w), 0, byte(k))
			o := own{hx(ih), hx(pk)}
			owned[w] = append(owned[w], o)
			storeOp(c, "st.put_leecher", map[string]string{"ih": o.ih, "pk": o.pk, "inst": "0"})
		}
	}
	cutoff := strconv.FormatInt(t0-10e9, 10)
	type rec struct{ line, obs string }
	logs := make([][]rec, workers)
	var gcLog []rec
	var wg sync.WaitGroup
	var done int32
	rc := &recCtx{}
	for w := 0; w < workers; w++ {
		wg.Add(1)
		go func(w int) {
			defer wg.Done()
			for i := 0; i < rounds; i++ {
				for _, o := range owned[w] {
					a := map[string]string{"ih": o.ih, "pk": o.pk, "inst": "0"}
					l, ob := rc.run("st.del_leecher", a)
					logs[w] = append(logs[w], rec{l, ob})
					l, ob = rc.run("st.put_leecher", a)
					logs[w] = append(logs[w], rec{l, ob})
				}
			}
		}(w)
	}
	gcDone := make(chan struct{})
	go func() {
		defer close(gcDone)
		for atomic.LoadInt32(&done) == 0 {
			l, ob := rc.run("st.gc", map[string]string{"cutoff": cutoff, "inst": "0"})
			gcLog = append(gcLog, rec{l, ob})
		}
	}()
	wg.Wait()
	atomic.StoreInt32(&done, 1)
	<-gcDone
	for w := range logs {
		for _, e := range logs[w] {
			c.Emit(e.line, e.obs)
		}
	}
	if len(gcLog) > 50 {
		gcLog = gcLog[:50] // they are all the same no-op
	}
	for _, e := range gcLog {
		c.Emit(e.line, e.obs)
	}
	storeOp(c, "st.dump", map[string]string{})
	storeOp(c, "st.totals", map[string]string{"inst": "0"})
	c.Kind("gc-churn")
}

func runC04(c *Ctx) {
	for _, l := range c.CorpusLines() {
		op, a := parseOp(l)
		replayStore(c, op, a)
	}
	r := c.R
	rounds := c.N / 12
	for i := 0; i < rounds; i++ {
		kind := "memory"
		if i%4 == 3 {
			kind = "redis"
		}
		concurrentStoreRound(c, r, kind, i)
	}
	for i := 0; i < c.N/400+1; i++ {
		kind := "memory"
		if i%5 == 4 {
			kind = "redis"
		}
		contendedBatch(c, r, kind, i, 40)
	}
	for i := 0; i < c.N/4000+2; i++ {
		gcChurn(c, r, i)
	}
	redisCounterWindow(c)
	for i := 0; i < c.N/100+5; i++ {
		redisSchedRound(c, r, i)
	}
	for i := 0; i < c.N/3000+2; i++ {
		redisGcStorm(c, r, i)
		gcStorm(c, r, i, "memory")
	}
	for _, pre := range []string{"E", "-", "E,S,E", "E", "S,E,E"} { // (repeated: the overlap needs two requests in flight at once, which a loaded machine does not always grant)
		udpOverlap(c, pre, 24)
	}
	concurrentUDP(c, r, 16, c.N/40+10)
}

func concurrentUDP(c *Ctx, r *Rng, workers, perWorker int) {
	concurrentUDPMode(c, r, workers, perWorker, false)
	// connect storm: nothing but connects from distinct sources, back to back (pooled generator / buffer reuse)
	concurrentUDPMode(c, r, 32, perWorker, true)
}

func concurrentUDPMode(c *Ctx, r *Rng, workers, perWorker int, storm bool) {
	now := int64(1700000000e9)
	timecache.VerifSetClock(now)
	type result struct {
		uc  udpCase
		obs string
	}
	results := make([][]result, workers)
	var wg sync.WaitGroup
	fe, err := udpfe.VerifNewFrontend(&echoLogic{}, udpfe.Config{PrivateKey: udpKey, MaxClockSkew: 10e9,
		ParseOptions: udpfe.ParseOptions{MaxNumWant: 100, DefaultNumWant: 50, MaxScrapeInfoHashes: 50}})
	if err != nil {
		panic(err)
	}
	defer fe.VerifClose()
	seeds := make([]*Rng, workers)
	for w := range seeds {
		seeds[w] = r.Fork()
	}
	for w := 0; w < workers; w++ {
		wg.Add(1)
		go func(w int) {
			defer wg.Done()
			rr := seeds[w]
			cl, err := net.ListenUDP("udp", &net.UDPAddr{IP: net.IPv4(127, 0, 0, 1)})
			if err != nil {
				panic(err)
			}
			defer cl.Close()
			if storm {
				// bursts: 16 connects handed to the frontend back to back, then their 16 answers are read and
				// matched by transaction ID
				const burst = 16
				for i := 0; i < perWorker; i += burst {
					var ucs []udpCase
					for b := 0; b < burst; b++ {
						uc := udpCase{now: now, skew: 10e9, maxnw: 100, defnw: 50, ms: 50, logic: "echo", src: net.IP{10, byte(w), byte((i + b) >> 8), byte(i + b)}}
						uc.pkt = append([]byte{0, 0, 0x04, 0x17, 0x27, 0x10, 0x19, 0x80, 0, 0, 0, 0}, rr.Bytes(4)...)
						binary.BigEndian.PutUint16(uc.pkt[12:14], uint16(i+b)) // distinct transaction IDs within the burst
						ucs = append(ucs, uc)
						_ = fe.VerifHandle(append([]byte{}, uc.pkt...), append(net.IP{}, uc.src...), cl.LocalAddr().(*net.UDPAddr))
					}
					fe.VerifSentinel(cl.LocalAddr().(*net.UDPAddr))
					got := map[string][]string{}
					buf := make([]byte, 65536)
					for {
						_ = cl.SetReadDeadline(time.Now().Add(3 * time.Second))
						n, _, err := cl.ReadFromUDP(buf)
						if err != nil || string(buf[:n]) == "\xffVERIF-SENTINEL\xff" {
							break
						}
						if n >= 8 {
							got[string(buf[4:8])] = append(got[string(buf[4:8])], hx(buf[:n]))
						}
					}
					for _, uc := range ucs {
						obs := "silent"
						if g := got[string(uc.pkt[12:16])]; len(g) == 1 {
							obs = "dgram=" + g[0]
						} else if len(g) > 1 {
							obs = "TWO-DATAGRAMS"
						}
						results[w] = append(results[w], result{uc, obs})
					}
				}
				return
			}
			for i := 0; i < perWorker; i++ {
				uc := udpCase{now: now, skew: 10e9, maxnw: 100, defnw: 50, ms: 50, logic: "echo", src: net.IP{10, byte(w), byte(i >> 8), byte(i)}}
				f := randAnnounce(rr, &uc)
				f.action, f.ipField = 1, make([]byte, 4)
				if rr.Intn(3) == 0 {
					f.options = encodeOptions(rr, udpURLData[rr.Intn(len(udpURLData))])
				}
				uc.pkt = f.build()
				if rr.Intn(6) == 0 {
					uc.pkt = uc.pkt[:16+rr.Intn(len(uc.pkt)-15)]
				}
				if storm || rr.Intn(3) == 0 { // a connect: the issued ID must be the one for *this* source address
					uc.pkt = append([]byte{0, 0, 0x04, 0x17, 0x27, 0x10, 0x19, 0x80, 0, 0, 0, 0}, rr.Bytes(4)...)
				}
				pkt := append([]byte{}, uc.pkt...)
				_ = fe.VerifHandle(pkt, append(net.IP{}, uc.src...), cl.LocalAddr().(*net.UDPAddr))
				// scribble over the request buffer as the byte pool would after reuse
				for k := range pkt {
					pkt[k] = 0xAA
				}
				fe.VerifSentinel(cl.LocalAddr().(*net.UDPAddr))
				var dgrams [][]byte
				buf := make([]byte, 65536)
				for {
					_ = cl.SetReadDeadline(time.Now().Add(3 * time.Second))
					n, _, err := cl.ReadFromUDP(buf)
					if err != nil {
						break
					}
					if string(buf[:n]) == "\xffVERIF-SENTINEL\xff" {
						break
					}
					dgrams = append(dgrams, append([]byte{}, buf[:n]...))
				}
				obs := "silent"
				if len(dgrams) > 1 {
					obs = "TWO-DATAGRAMS"
				} else if len(dgrams) == 1 {
					d := dgrams[0]
					if len(d) >= 8 && binary.BigEndian.Uint32(d[:4]) == 3 {
						msg := strings.TrimSuffix(string(d[8:]), "\x00")
						cls := "other"
						if isClientMsgUDP(msg) {
							cls = "client"
						}
						obs = "error tx=" + hx(d[4:8]) + " cls=" + cls + " nul=" + b01(strings.HasSuffix(string(d[8:]), "\x00"))
					} else {
						obs = "dgram=" + hx(d)
					}
				}
				results[w] = append(results[w], result{uc, obs})
			}
		}(w)
	}
	wg.Wait()
	for w := range results {
		for _, res := range results[w] {
			emitEcho(c, res.uc, res.obs)
			c.Kind("udp-concurrent")
		}
	}
}

// echoLogic answers with a function of the request, so that the response bytes show which request
// the handler actually processed.
type echoLogic struct{}

func (echoLogic) HandleAnnounce(ctx context.Context, req *bittorrent.AnnounceRequest) (context.Context, *bittorrent.AnnounceResponse, error) {
	p := bittorrent.Peer{IP: req.IP, Port: req.Port}
	return ctx, &bittorrent.AnnounceResponse{Interval: time.Duration(req.Left%1000+1) * time.Second, Complete: uint32(req.Downloaded), Incomplete: uint32(req.Uploaded),
		IPv4Peers: []bittorrent.Peer{p}, IPv6Peers: []bittorrent.Peer{p}}, nil
}
func (echoLogic) AfterAnnounce(context.Context, *bittorrent.AnnounceRequest, *bittorrent.AnnounceResponse) {
}
func (echoLogic) HandleScrape(ctx context.Context, req *bittorrent.ScrapeRequest) (context.Context, *bittorrent.ScrapeResponse, error) {
	return ctx, &bittorrent.ScrapeResponse{}, nil
}
func (echoLogic) AfterScrape(context.Context, *bittorrent.ScrapeRequest, *bittorrent.ScrapeResponse) {
}

func emitEcho(c *Ctx, uc udpCase, obs string) {
	tag := macTag(udpKey, append(append([]byte{}, uc.pkt[:4]...), uc.src...))
	var ts [4]byte
	binary.BigEndian.PutUint32(ts[:], uint32(time.Unix(0, uc.now).Unix()))
	gtag := macTag(udpKey, append(ts[:], uc.src...))
	optArea := []byte{}
	if len(uc.pkt) > 98 {
		optArea = uc.pkt[98:]
	}
	op := fmt.Sprintf("udp.echo pkt=%s src=%s now=%d skew=%d spoof=0 maxnw=%d defnw=%d maxscrape=%d tag=%s gtag=%s lowmap=%s",
		hx(uc.pkt), hx(uc.src), uc.now, uc.skew, uc.maxnw, uc.defnw, uc.ms, hx(tag), hx(gtag), lowmapOf(urlDataOf(optArea)))
	c.Emit(op, obs)
}

// redisSchedRound: 2-4 threads run 1-3 announce-path operations each on ONE swarm and the same 2-3 peers of the real
// Redis store, under a scheduler that interleaves their round trips in a generated order (st.redis_sched). The model
// (RedisConc.run) executes the same schedule; the server state in the middle of the schedule, the order and results
// of the operations, the final state and the exported totals must all agree.
func redisSchedRound(c *Ctx, r *Rng, round int) {
	storeOp(c, "st.reset", map[string]string{"n": "1", "kind": "redis", "instances": "1"})
	clock := int64(1700000000e9) + int64(round)*1e9
	withGC := r.Intn(2) == 0
	if withGC {
		// the sequential prefix is old: an expiry pass has something to remove
		storeOp(c, "st.clock", map[string]string{"t": strconv.FormatInt(clock-100e9, 10)})
	} else {
		storeOp(c, "st.clock", map[string]string{"t": strconv.FormatInt(clock, 10)})
	}
	u := mkUniverse(r, 1, 3)
	ih := hx(u.ihs[0])
	fam4 := len(u.peers[0]) == 26
	var peers []string
	for _, p := range u.peers {
		if (len(p) == 26) == fam4 {
			peers = append(peers, hx(p))
		}
	}
	for i := 0; i < r.Intn(5); i++ {
		storeOp(c, []string{"st.put_seeder", "st.put_leecher"}[r.Intn(2)], map[string]string{"ih": ih, "pk": peers[r.Intn(len(peers))], "inst": "0"})
	}
	if withGC {
		storeOp(c, "st.clock", map[string]string{"t": strconv.FormatInt(clock, 10)})
	}
	threads := 2 + r.Intn(3)
	var progs []string
	trips := 0
	for t := 0; t < threads; t++ {
		var pr []string
		for k := 0; k < 1+r.Intn(3); k++ {
			pr = append(pr, []string{"ps", "pl", "gr", "ds", "dl"}[r.Intn(5)]+":"+peers[r.Intn(len(peers))])
			trips += 2
		}
		progs = append(progs, strings.Join(pr, ";"))
	}
	if withGC {
		// one or two expiry passes (two: another instance's), cutoff between the old and the new time, or at the new
		// time (everything is stale), or before the old one (nothing is)
		for g := 1 + r.Intn(2); g > 0; g-- {
			cut := []int64{clock - 50e9, clock - 50e9, clock, clock - 200e9}[r.Intn(4)]
			progs = append(progs, "gc:"+strconv.FormatInt(cut, 10))
			threads++
			trips += 12
		}
	}
	// a schedule that usually stops with operations in flight, sometimes runs past the end
	var sched []string
	for k := r.Intn(trips + 2); k > 0; k-- {
		sched = append(sched, strconv.Itoa(r.Intn(threads)))
	}
	sa := "-"
	if len(sched) > 0 {
		sa = strings.Join(sched, ",")
	}
	storeOp(c, "st.redis_sched", map[string]string{"ih": ih, "progs": strings.Join(progs, "|"), "sched": sa})
	if withGC {
		c.Kind("redis-sched-gc")
		if lastSchedDiscards > 0 {
			c.Kind("redis-sched-gc-with-discarded-transactions")
		}
	} else {
		c.Kind("redis-sched")
	}
	storeOp(c, "st.dump", map[string]string{})
	storeOp(c, "st.totals", map[string]string{"inst": "0"})
}

// redisCounterWindow: the fixed schedules of finding D26. A put's membership transaction has gone through and its INCR
// has not been sent yet; a delete of the same peer on another connection runs both of its round trips (HDEL, DECR) in
// between. The state at that point is the `mid` of the observation; both operations then finish.
func redisCounterWindow(c *Ctx) {
	for _, fam := range []string{"v4", "v6"} {
		for _, role := range [][2]string{{"ps", "ds"}, {"pl", "dl"}} {
			storeOp(c, "st.reset", map[string]string{"n": "1", "kind": "redis", "instances": "1"})
			storeOp(c, "st.clock", map[string]string{"t": "1700000000000000000"})
			pk := strings.Repeat("02", 20) + "1ae1" + "0a000001"
			if fam == "v6" {
				pk = strings.Repeat("02", 20) + "1ae1" + "20010db8000000000000000000000001"
			}
			ih := strings.Repeat("01", 20)
			storeOp(c, "st.redis_sched", map[string]string{"ih": ih, "progs": role[0] + ":" + pk + "|" + role[1] + ":" + pk, "sched": "0,1,1"})
			c.Kind("redis-sched-counter-window")
			storeOp(c, "st.dump", map[string]string{})
			storeOp(c, "st.totals", map[string]string{"inst": "0"})
		}
	}
}

// redisGcStorm: three tracker instances on one Redis. A few swarms hold peers whose last announce is old. Then, truly
// concurrently: four workers re-announce their own old peers and go on deleting and re-announcing them (all on the same
// few swarms), while TWO instances run expiry passes in a loop with a cutoff between the old and the new time. Whatever
// the interleaving, the outcome is determined: a worker's peer is there iff its last operation was an announce (its
// first operation is an announce, after which no pass may remove it), the abandoned old peers are gone, the counters
// are the recount and, after one more pass at rest, exactly the non-empty swarms are registered. The model gets the
// workers' programs one after the other, then one pass.
func redisGcStorm(c *Ctx, r *Rng, round int) { gcStorm(c, r, round, "redis") }

// gcStorm: the same for either store (memory: one store, the two collectors are two goroutines running passes on it)
func gcStorm(c *Ctx, r *Rng, round int, kind string) {
	storeOp(c, "st.reset", map[string]string{"n": strconv.Itoa(1 + r.Intn(2)), "kind": kind, "instances": "3"})
	t0 := int64(1700000000e9) + int64(round)*1e9
	storeOp(c, "st.clock", map[string]string{"t": strconv.FormatInt(t0-100e9, 10)})
	const workers, perWorker, rounds = 4, 6, 10
	var ihs []string
	for k := 0; k < 3; k++ {
		ihs = append(ihs, hx(r.Bytes(20)))
	}
	type own struct {
		ih, pk string
		seeder bool
	}
	mk := func(w, k int) own {
		var pk []byte
		if (w+k)%3 == 0 {
			pk = append(append(r.Bytes(20), 0x1a, 0xe1), append([]byte{0x20, 0x01, 0x0d, 0xb8}, append(make([]byte, 10), byte(w), byte(k))...)...)
		} else {
			pk = append(append(r.Bytes(20), 0x1a, 0xe1), 10, byte(w), 0, byte(k))
		}
		return own{ihs[r.Intn(len(ihs))], hx(pk), r.Bool()}
	}
	putOp := func(o own) string {
		if o.seeder {
			return "st.put_seeder"
		}
		return "st.put_leecher"
	}
	delOp := func(o own) string {
		if o.seeder {
			return "st.del_seeder"
		}
		return "st.del_leecher"
	}
	owned := make([][]own, workers)
	for w := 0; w < workers; w++ {
		for k := 0; k < perWorker; k++ {
			o := mk(w, k)
			owned[w] = append(owned[w], o)
			storeOp(c, putOp(o), map[string]string{"ih": o.ih, "pk": o.pk, "inst": "0"})
		}
	}
	for k := 0; k < 8; k++ { // old peers nobody comes back for
		o := mk(9, k)
		storeOp(c, putOp(o), map[string]string{"ih": o.ih, "pk": o.pk, "inst": "0"})
	}
	storeOp(c, "st.clock", map[string]string{"t": strconv.FormatInt(t0, 10)})
	cutoff := t0 - 50e9
	type rec struct{ line, obs string }
	logs := make([][]rec, workers)
	plans := make([][]bool, workers) // per worker and round: delete after announcing?
	for w := range plans {
		for i := 0; i < rounds*perWorker; i++ {
			plans[w] = append(plans[w], r.Intn(3) == 0)
		}
	}
	var wg sync.WaitGroup
	var done int32
	rc := &recCtx{}
	for w := 0; w < workers; w++ {
		wg.Add(1)
		go func(w int) {
			defer wg.Done()
			for i := 0; i < rounds; i++ {
				for k, o := range owned[w] {
					a := map[string]string{"ih": o.ih, "pk": o.pk, "inst": strconv.Itoa(w % 2)}
					l, ob := rc.run(putOp(o), a)
					logs[w] = append(logs[w], rec{l, ob})
					if plans[w][i*perWorker+k] {
						l, ob = rc.run(delOp(o), a)
						logs[w] = append(logs[w], rec{l, ob})
					}
				}
			}
		}(w)
	}
	var gcWG sync.WaitGroup
	gcErr := make([]string, 2)
	for g := 0; g < 2; g++ {
		gcWG.Add(1)
		go func(g int) {
			defer gcWG.Done()
			defer func() {
				if p := recover(); p != nil {
					gcErr[g] = "PANIC"
				}
			}()
			for atomic.LoadInt32(&done) == 0 {
				var err error
				if kind == "redis" {
					err = redis.VerifCollectGarbage(rig.all[1+g], cutoff)
				} else {
					err = memory.VerifCollectGarbage(rig.ps, cutoff)
					runtime.Gosched()
				}
				if err != nil {
					gcErr[g] = "err"
				}
			}
		}(g)
	}
	wg.Wait()
	atomic.StoreInt32(&done, 1)
	gcWG.Wait()
	for w := range logs {
		for _, e := range logs[w] {
			c.Emit(e.line, e.obs)
		}
	}
	if gcErr[0]+gcErr[1] != "" {
		c.Emit("st.gc cutoff="+strconv.FormatInt(cutoff, 10)+" inst=1", "concurrent-pass-failed:"+gcErr[0]+gcErr[1])
	}
	storeOp(c, "st.gc", map[string]string{"cutoff": strconv.FormatInt(cutoff, 10), "inst": "0"})
	storeOp(c, "st.dump", map[string]string{})
	storeOp(c, "st.totals", map[string]string{"inst": "0"})
	c.Kind(kind + "-gc-storm")
}
