package main

// Store streams (C01, C02, C03, C05, C17): operation sequences against the real peer stores,
// with the full state dumped and compared after the mutating steps.

import (
	"encoding/binary"
	"errors"
	"fmt"
	"net"
	"sort"
	"strconv"
	"strings"
	"sync/atomic"
	"time"

	dto "github.com/prometheus/client_model/go"

	"github.com/chihaya/chihaya/bittorrent"
	"github.com/chihaya/chihaya/pkg/timecache"
	"github.com/chihaya/chihaya/storage"
	"github.com/chihaya/chihaya/storage/memory"
	"github.com/chihaya/chihaya/storage/redis"

	"github.com/alicebob/miniredis"
)

type storeRig struct {
	kind  string
	ps    storage.PeerStore
	all   []storage.PeerStore // redis: several tracker instances sharing one Redis
	mr    *miniredis.Miniredis
	clock int64
	fails []*int32 // redis: fault switches, one per instance (installed on first use)
	down  bool
}

var sharedRedis *miniredis.Miniredis

func (r *storeRig) pick(a map[string]string) storage.PeerStore {
	if r.kind == "redis" {
		i, _ := strconv.Atoi(a["inst"])
		return r.all[i%len(r.all)]
	}
	return r.ps
}

func redisDump(mr *miniredis.Miniredis) string {
	var hs []string
	idx := map[string][]string{"IPv4": nil, "IPv6": nil}
	short := func(k string) string { // IPv4_S_<hex> -> v4S:<hex>
		return "v" + k[3:4] + k[5:6] + ":" + k[7:]
	}
	for _, k := range mr.Keys() {
		switch {
		case k == "IPv4" || k == "IPv6":
			fs, _ := mr.HKeys(k)
			for _, f := range fs {
				idx[k] = append(idx[k], short(f))
			}
		case strings.HasSuffix(k, "_count"):
		default:
			fs, _ := mr.HKeys(k)
			m := map[string]int64{}
			for _, f := range fs {
				v := mr.HGet(k, f)
				t, _ := strconv.ParseInt(v, 10, 64)
				m[f] = t
			}
			hs = append(hs, short(k)+"="+showPMapGo(m))
		}
	}
	sort.Strings(hs)
	sort.Strings(idx["IPv4"])
	sort.Strings(idx["IPv6"])
	cnt := func(k string) string {
		v, err := mr.Get(k)
		if err != nil {
			return "0"
		}
		return v
	}
	return "hashes=[" + strings.Join(hs, " ") + "] idx4=[" + strings.Join(idx["IPv4"], ",") + "] idx6=[" + strings.Join(idx["IPv6"], ",") + "] counters=[" +
		strings.Join([]string{cnt("IPv4_infohash_count"), cnt("IPv4_S_count"), cnt("IPv4_L_count"), cnt("IPv6_infohash_count"), cnt("IPv6_S_count"), cnt("IPv6_L_count")}, ",") + "]"
}

var rig *storeRig

func gaugeVal(g interface{ Write(*dto.Metric) error }) int64 {
	var m dto.Metric
	_ = g.Write(&m)
	return int64(m.GetGauge().GetValue())
}

func peerFromKey(pk []byte) bittorrent.Peer {
	af := bittorrent.IPv4
	if len(pk) == 38 {
		af = bittorrent.IPv6
	}
	return bittorrent.Peer{ID: bittorrent.PeerIDFromBytes(pk[:20]), Port: binary.BigEndian.Uint16(pk[20:22]),
		IP: bittorrent.IP{IP: append(net.IP{}, pk[22:]...), AddressFamily: af}}
}

func keyOfPeer(p bittorrent.Peer) []byte {
	b := append([]byte{}, p.ID[:]...)
	b = binary.BigEndian.AppendUint16(b, p.Port)
	return append(b, p.IP.IP...)
}

func showPMapGo(m map[string]int64) string {
	var ks []string
	for k := range m {
		ks = append(ks, k)
	}
	sort.Strings(ks)
	var p []string
	for _, k := range ks {
		p = append(p, fmt.Sprintf("%s@%d", hx([]byte(k)), m[k]))
	}
	return "{" + strings.Join(p, ",") + "}"
}

func storeDump() string {
	if rig.kind == "redis" {
		return redisDump(rig.mr)
	}
	swarms, shards := memory.VerifDump(rig.ps)
	var es []string
	for _, s := range swarms {
		fam := "v4"
		if s.V6 {
			fam = "v6"
		}
		es = append(es, fmt.Sprintf("%s:%s S=%s L=%s", fam, hx(s.InfoHash[:]), showPMapGo(s.Seeders), showPMapGo(s.Leechers)))
	}
	sort.Strings(es)
	var cs []string
	for _, sh := range shards {
		cs = append(cs, fmt.Sprintf("%d/%d/%d", sh[0], int64(sh[1]), int64(sh[2])))
	}
	return "swarms=[" + strings.Join(es, " ") + "] shards=[" + strings.Join(cs, ",") + "]"
}

// storeOp executes one st.* operation on the real store and emits line + observation.
func storeOp(c *Ctx, op string, a map[string]string) {
	line := op
	keys := make([]string, 0, len(a))
	for k := range a {
		keys = append(keys, k)
	}
	sort.Strings(keys)
	for _, k := range keys {
		if k != "got" && k != "trace" {
			line += " " + k + "=" + a[k]
		}
	}
	c.Begin(line)
	obs := func() (o string) {
		defer func() {
			if p := recover(); p != nil {
				o = "PANIC " + strings.Fields(fmt.Sprint(p))[0]
			}
		}()
		switch op {
		case "st.reset":
			if rig != nil {
				if rig.ps != nil {
					<-rig.ps.Stop()
				}
				for _, p := range rig.all {
					<-p.Stop()
				}
			}
			n, _ := strconv.Atoi(a["n"])
			if a["kind"] == "redis" {
				if sharedRedis == nil {
					mr, err := miniredis.Run()
					if err != nil {
						return "miniredis-failed"
					}
					sharedRedis = mr
				}
				sharedRedis.FlushAll()
				rig = &storeRig{kind: "redis", mr: sharedRedis}
				k, _ := strconv.Atoi(a["instances"])
				if k < 1 {
					k = 1
				}
				for i := 0; i < k; i++ {
					ps, err := redis.New(redis.Config{RedisBroker: "redis://@" + sharedRedis.Addr() + "/0", GarbageCollectionInterval: time.Hour,
						PrometheusReportingInterval: time.Hour, PeerLifetime: time.Hour, RedisReadTimeout: 10 * time.Second,
						RedisWriteTimeout: 10 * time.Second, RedisConnectTimeout: 10 * time.Second})
					if err != nil {
						return "new-failed"
					}
					rig.all = append(rig.all, ps)
				}
				return "ok"
			}
			ps, err := memory.New(memory.Config{ShardCount: n, GarbageCollectionInterval: time.Hour, PrometheusReportingInterval: time.Hour, PeerLifetime: time.Hour})
			if err != nil {
				return "new-failed"
			}
			rig = &storeRig{kind: "memory", ps: ps}
			return "ok"
		case "st.fail":
			if rig.kind != "redis" {
				return "n/a"
			}
			if rig.fails == nil {
				for _, p := range rig.all {
					rig.fails = append(rig.fails, redis.VerifFailSwitch(p))
				}
			}
			rig.down = a["on"] == "1"
			for _, f := range rig.fails {
				v := int32(0)
				if rig.down {
					v = 1
				}
				atomic.StoreInt32(f, v)
			}
			return "ok"
		case "st.clock":
			t, _ := strconv.ParseInt(a["t"], 10, 64)
			rig.clock = t
			timecache.VerifSetClock(t)
			return "ok"
		case "st.put_seeder", "st.put_leecher", "st.graduate":
			ih := bittorrent.InfoHashFromBytes(unhx(a["ih"]))
			p := peerFromKey(unhx(a["pk"]))
			var err error
			switch op {
			case "st.put_seeder":
				err = rig.pick(a).PutSeeder(ih, p)
			case "st.put_leecher":
				err = rig.pick(a).PutLeecher(ih, p)
			default:
				err = rig.pick(a).GraduateLeecher(ih, p)
			}
			if err != nil {
				return "err"
			}
			return "ok"
		case "st.del_seeder", "st.del_leecher":
			ih := bittorrent.InfoHashFromBytes(unhx(a["ih"]))
			p := peerFromKey(unhx(a["pk"]))
			var err error
			if op == "st.del_seeder" {
				err = rig.pick(a).DeleteSeeder(ih, p)
			} else {
				err = rig.pick(a).DeleteLeecher(ih, p)
			}
			if errors.Is(err, storage.ErrResourceDoesNotExist) {
				return "notexist"
			} else if err != nil {
				return "err"
			}
			return "ok"
		case "st.scrape":
			af := bittorrent.IPv4
			if a["fam"] == "6" {
				af = bittorrent.IPv6
			}
			s := rig.pick(a).ScrapeSwarm(bittorrent.InfoHashFromBytes(unhx(a["ih"])), af)
			return fmt.Sprintf("c=%d i=%d", s.Complete, s.Incomplete)
		case "st.announce":
			ih := bittorrent.InfoHashFromBytes(unhx(a["ih"]))
			p := peerFromKey(unhx(a["pk"]))
			nw, _ := strconv.Atoi(a["nw"])
			peers, err := rig.pick(a).AnnouncePeers(ih, a["seeder"] == "1", nw, p)
			if errors.Is(err, storage.ErrResourceDoesNotExist) {
				line += " got=ERR"
				return "notexist"
			} else if err != nil {
				line += " got=ERR"
				return "err"
			}
			var l []string
			for _, q := range peers {
				if q.IP.AddressFamily != p.IP.AddressFamily {
					return "WRONG-FAMILY-PEER"
				}
				l = append(l, hx(keyOfPeer(q)))
			}
			g := "-"
			if len(l) > 0 {
				g = strings.Join(l, ",")
			}
			line += " got=" + g
			return fmt.Sprintf("valid n=%d", len(peers))
		case "st.gc":
			t, _ := strconv.ParseInt(a["cutoff"], 10, 64)
			var err error
			if rig.kind == "redis" {
				err = redis.VerifCollectGarbage(rig.pick(a), t)
			} else {
				err = memory.VerifCollectGarbage(rig.ps, t)
			}
			if err != nil {
				return "err"
			}
			return "ok"
		case "st.redis_gc_race":
			// instance 0 runs an expiry pass; right before its first HDEL another instance re-announces the same peer
			if rig.kind != "redis" || len(rig.all) < 2 {
				return "needs-two-redis-instances"
			}
			ih := bittorrent.InfoHashFromBytes(unhx(a["ih"]))
			p := peerFromKey(unhx(a["pk"]))
			if err := rig.all[0].PutSeeder(ih, p); err != nil {
				return "err"
			}
			old := rig.clock
			timecache.VerifSetClock(old + 1e9)
			fired := false
			redis.VerifHookBeforeDo(rig.all[0], func(cmd string) {
				// right before the removal: the single HDELs of the collector as it was, the EXEC of its MULTI … HDEL … group now
				if (cmd == "HDEL" || cmd == "EXEC") && !fired {
					fired = true
					_ = rig.all[1].PutSeeder(ih, p) // the re-announce, at clock old+1s, i.e. after the cutoff
				}
			})
			err := redis.VerifCollectGarbage(rig.all[0], old+5e8)
			redis.VerifHookBeforeDo(rig.all[0], func(string) {})
			if err != nil {
				return "err"
			}
			s := rig.all[1].ScrapeSwarm(ih, p.IP.AddressFamily)
			rig.clock = old + 1e9
			return fmt.Sprintf("reannounced_during_pass=%s kept=%d", b01(fired), s.Complete)
		case "st.redis_sched":
			if rig.kind != "redis" {
				return "n/a"
			}
			// what each round trip turned out to be (the collector's discarded transactions and reads are no steps)
			// goes onto the op line: the model checks that this trace is one of its own and leads to the same states
			tr, obs := redisSched(a["ih"], a["progs"], a["sched"])
			line += " trace=" + tr
			return obs
		case "st.redis_gc_double":
			// two tracker instances share the Redis and each runs its own expiry loop: instance 0's pass is parked right
			// before the transaction that unregisters an emptied swarm, instance 1 runs a whole pass, instance 0 goes on
			if rig.kind != "redis" || len(rig.all) < 2 {
				return "needs-two-redis-instances"
			}
			ih := bittorrent.InfoHashFromBytes(unhx(a["ih"]))
			p := peerFromKey(unhx(a["pk"]))
			if err := rig.all[0].PutSeeder(ih, p); err != nil {
				return "err"
			}
			if err := rig.all[0].DeleteSeeder(ih, p); err != nil {
				return "err"
			}
			fired := false
			redis.VerifHookBeforeDo(rig.all[0], func(cmd string) {
				if cmd == "EXEC" && !fired {
					fired = true
					_ = redis.VerifCollectGarbage(rig.all[1], rig.clock)
				}
			})
			err := redis.VerifCollectGarbage(rig.all[0], rig.clock)
			redis.VerifHookBeforeDo(rig.all[0], func(string) {})
			if err != nil {
				return "err"
			}
			redis.VerifPopulateProm(rig.all[0])
			return fmt.Sprintf("second_pass_inside_first=%s infohashes=%d", b01(fired), gaugeVal(storage.PromInfohashesCount))
		case "st.dump":
			return storeDump()
		case "st.totals":
			if rig.kind == "redis" {
				redis.VerifPopulateProm(rig.pick(a))
			} else {
				memory.VerifPopulateProm(rig.ps)
			}
			return fmt.Sprintf("ih=%d s=%d l=%d", gaugeVal(storage.PromInfohashesCount), gaugeVal(storage.PromSeedersCount), gaugeVal(storage.PromLeechersCount))
		}
		return "unknown-op"
	}()
	c.Emit(line, obs)
}

func replayStore(c *Ctx, op string, a map[string]string) {
	if op == "udp.overlap" {
		b, _ := strconv.Atoi(a["burst"])
		udpOverlap(c, a["prelude"], b)
		return
	}
	if op == "cfg.store_bg" {
		var life, gci int64
		fmt.Sscan(a["life"], &life)
		fmt.Sscan(a["gci"], &gci)
		cfgStoreBG(c, a["kind"], life, gci)
		return
	}
	if op == "st.bg_loop" {
		var life, lag int64
		fmt.Sscan(a["life"], &life)
		fmt.Sscan(a["lag"], &lag)
		stBGLoop(c, a["kind"], life, lag)
		return
	}
	if op == "clock.stall" {
		ms, _ := strconv.Atoi(a["ms"])
		clockStall(c, ms)
		return
	}
	storeOp(c, op, a)
}

// ---- generators -------------------------------------------------------------------------------

type universe struct {
	ihs   [][]byte
	peers [][]byte // peer keys
}

func mkUniverse(r *Rng, nIH, nPeers int) universe {
	var u universe
	prefixes := []uint32{0, 1, 2, 3, 4, 1024, 1025, 2048, 0xffffffff}
	for i := 0; i < nIH; i++ {
		ih := r.Bytes(20)
		binary.BigEndian.PutUint32(ih[:4], prefixes[r.Intn(len(prefixes))])
		if i > 0 && r.Intn(3) == 0 {
			copy(ih[:4], u.ihs[r.Intn(i)][:4]) // same shard, different infohash
		}
		u.ihs = append(u.ihs, ih)
	}
	ids := [][]byte{r.Bytes(20), r.Bytes(20), r.Bytes(20)}
	ports := []uint16{6881, 6882, 1}
	ip4 := [][]byte{{10, 0, 0, 1}, {10, 0, 0, 2}}
	ip6 := [][]byte{net.ParseIP("2001:db8::1"), net.ParseIP("2001:db8::2")}
	for len(u.peers) < nPeers {
		k := append([]byte{}, ids[r.Intn(len(ids))]...)
		k = binary.BigEndian.AppendUint16(k, ports[r.Intn(len(ports))])
		if r.Intn(3) == 0 {
			k = append(k, ip6[r.Intn(2)]...)
		} else {
			k = append(k, ip4[r.Intn(2)]...)
		}
		dup := false
		for _, q := range u.peers {
			if string(q) == string(k) {
				dup = true
			}
		}
		if !dup {
			u.peers = append(u.peers, k)
		}
	}
	return u
}

type storeProfile struct {
	name                                          string
	wPut, wDel, wGrad, wAnn, wScrape, wGC, wClock int
	dumpEvery                                     int
	totals                                        bool
	seqLen                                        int
	bigSwarm                                      bool
}

var storeProfiles = map[string]storeProfile{
	"C01": {name: "C01", wPut: 40, wDel: 15, wGrad: 10, wAnn: 5, wScrape: 15, wGC: 5, wClock: 10, dumpEvery: 1, seqLen: 60},
	"C02": {name: "C02", wPut: 25, wDel: 5, wGrad: 5, wAnn: 55, wScrape: 2, wGC: 2, wClock: 6, dumpEvery: 8, seqLen: 120, bigSwarm: true},
	"C03": {name: "C03", wPut: 40, wDel: 10, wGrad: 10, wAnn: 20, wScrape: 15, wGC: 2, wClock: 3, dumpEvery: 2, seqLen: 60},
	"C05": {name: "C05", wPut: 35, wDel: 5, wGrad: 5, wAnn: 5, wScrape: 10, wGC: 20, wClock: 20, dumpEvery: 1, seqLen: 60},
	"C17": {name: "C17", wPut: 35, wDel: 25, wGrad: 10, wAnn: 0, wScrape: 0, wGC: 10, wClock: 10, dumpEvery: 1, totals: true, seqLen: 80},
}

func init() {
	for k := range storeProfiles {
		k := k
		gens[k] = &Gen{Run: func(c *Ctx) { runStore(c, storeProfiles[k]) }, Replay: replayStore}
	}
}

func runStore(c *Ctx, pf storeProfile) {
	if pf.name == "C05" {
		clockStall(c, 600)
		// the stores' own expiry loops: default lifetime when none is configured, a very short one expires
		for _, kind := range []string{"memory", "redis"} {
			for _, life := range []int64{0, -5, int64(time.Millisecond), int64(time.Hour)} {
				cfgStoreBG(c, kind, life, int64(30*time.Millisecond))
			}
			for _, lag := range []int64{0, int64(500 * time.Millisecond), int64(900 * time.Millisecond)} {
				stBGLoop(c, kind, int64(time.Second), lag)
			}
		}
	}
	for _, l := range c.CorpusLines() {
		op, a := parseOp(l)
		replayStore(c, op, a)
	}
	r := c.R
	nseq := c.N / pf.seqLen
	if nseq < 1 {
		nseq = 1
	}
	for s := 0; s < nseq; s++ {
		n := []int{1, 1, 2, 3, 1024}[r.Intn(5)]
		kind, insts := "memory", 1
		if r.Intn(5) < 2 {
			kind, insts = "redis", 1+r.Intn(3)
		}
		storeOp(c, "st.reset", map[string]string{"n": strconv.Itoa(n), "kind": kind, "instances": strconv.Itoa(insts)})
		inst := func() string { return strconv.Itoa(r.Intn(insts)) }
		clock := int64(1700000000e9) + int64(r.Intn(1000))*1e9
		storeOp(c, "st.clock", map[string]string{"t": strconv.FormatInt(clock, 10)})
		nPeers := 3 + r.Intn(4)
		if pf.bigSwarm && r.Intn(3) == 0 {
			nPeers = 10 + r.Intn(8)
		}
		u := mkUniverse(r, 2+r.Intn(3), nPeers)
		total := pf.wPut + pf.wDel + pf.wGrad + pf.wAnn + pf.wScrape + pf.wGC + pf.wClock
		mut := 0
		for i := 0; i < pf.seqLen; i++ {
			ih := hx(u.ihs[r.Intn(len(u.ihs))])
			if i < pf.seqLen/3 {
				ih = hx(u.ihs[0]) // concentrate on one swarm first so that it fills up
			}
			pk := hx(u.peers[r.Intn(len(u.peers))])
			x := r.Intn(total)
			mutating := true
			switch {
			case x < pf.wPut:
				storeOp(c, []string{"st.put_seeder", "st.put_leecher"}[r.Intn(2)], map[string]string{"ih": ih, "pk": pk, "inst": inst()})
			case x < pf.wPut+pf.wDel:
				storeOp(c, []string{"st.del_seeder", "st.del_leecher"}[r.Intn(2)], map[string]string{"ih": ih, "pk": pk, "inst": inst()})
			case x < pf.wPut+pf.wDel+pf.wGrad:
				storeOp(c, "st.graduate", map[string]string{"ih": ih, "pk": pk, "inst": inst()})
			case x < pf.wPut+pf.wDel+pf.wGrad+pf.wAnn:
				nw := []int{0, 1, 2, 3, 4, 5, 6, 7, 8, 50, 1 << 31}[r.Intn(11)]
				if r.Intn(4) == 0 {
					nw = r.Intn(20)
				}
				storeOp(c, "st.announce", map[string]string{"ih": ih, "pk": pk, "nw": strconv.Itoa(nw), "seeder": b01(r.Bool()), "inst": inst()})
				mutating = false
			case x < pf.wPut+pf.wDel+pf.wGrad+pf.wAnn+pf.wScrape:
				storeOp(c, "st.scrape", map[string]string{"ih": ih, "fam": []string{"4", "6"}[r.Intn(2)], "inst": inst()})
				mutating = false
			case x < pf.wPut+pf.wDel+pf.wGrad+pf.wAnn+pf.wScrape+pf.wGC:
				// cutoff around the clock values used so far: exactly at, just below, just above, far
				cut := clock + []int64{0, -1, 1, -1e9, 1e9, -5e9, -3600e9, 3600e9}[r.Intn(8)]
				storeOp(c, "st.gc", map[string]string{"cutoff": strconv.FormatInt(cut, 10), "inst": inst()})
			default:
				clock += []int64{1, 1e9, 2e9, 1799e9, 1}[r.Intn(5)]
				storeOp(c, "st.clock", map[string]string{"t": strconv.FormatInt(clock, 10)})
				mutating = false
			}
			if mutating {
				mut++
				if mut%pf.dumpEvery == 0 {
					storeOp(c, "st.dump", map[string]string{})
				}
				if pf.totals {
					storeOp(c, "st.totals", map[string]string{"inst": "0"})
				}
			}
		}
		storeOp(c, "st.dump", map[string]string{})
		storeOp(c, "st.totals", map[string]string{"inst": "0"})
		if (pf.name == "C05" || pf.name == "C17") && kind == "redis" && insts >= 2 {
			// scripted interleavings of an expiry pass with another instance (D4: a re-announce right before the removal;
			// D16: a second instance's pass right before the first one unregisters an emptied swarm), state compared after
			storeOp(c, "st.redis_gc_race", map[string]string{"ih": hx(r.Bytes(20)), "pk": hx(u.peers[0])})
			storeOp(c, "st.dump", map[string]string{})
			storeOp(c, "st.redis_gc_double", map[string]string{"ih": hx(r.Bytes(20)), "pk": hx(u.peers[0])})
			storeOp(c, "st.dump", map[string]string{})
			storeOp(c, "st.totals", map[string]string{"inst": "0"})
		}
	}
}

// redisSched runs the programs (one goroutine and one store instance per thread, all on the shared Redis) under a
// scheduler that lets exactly one thread perform exactly one round trip at a time, in the order given by sched; a
// thread that has finished (or does not exist) makes its entry a no-op. A program is a list of announce-path
// operations, or `gc:<cutoff>`: one expiry pass. After the schedule the server state is read straight from the Redis
// (mid), then every thread is run to completion, thread 0 first. Reported: the trace (which thread took which step:
// `t` = the next round trip of an announce-path thread; for a collector only the round trips that change the server:
// `t:H:<swarm key>` = its removal group went through, `t:I:<swarm key>` = its unregistering group went through,
// `t:d` = a DECRBY/DECR; `|` marks the end of the schedule), the mid state, and the announce-path operations in the
// order of their first round trips with their results.
// how many of the collector's transactions the server discarded in the last st.redis_sched (statistics only)
var lastSchedDiscards int

func redisSched(ihHex, progsArg, schedArg string) (string, string) {
	lastSchedDiscards = 0
	type sop struct{ kind, pk string }
	var progs [][]sop
	for _, t := range strings.Split(progsArg, "|") {
		var pr []sop
		if t != "-" && t != "" {
			for _, o := range strings.Split(t, ";") {
				kv := strings.SplitN(o, ":", 2)
				if len(kv) != 2 {
					return "-", "bad-progs"
				}
				pr = append(pr, sop{kv[0], kv[1]})
			}
		}
		progs = append(progs, pr)
	}
	var sched []int
	if schedArg != "-" && schedArg != "" {
		for _, x := range strings.Split(schedArg, ",") {
			n, err := strconv.Atoi(x)
			if err != nil {
				return "-", "bad-sched"
			}
			sched = append(sched, n)
		}
	}
	ih := bittorrent.InfoHashFromBytes(unhx(ihHex))
	n := len(progs)
	type thr struct {
		ps      storage.PeerStore
		parked  chan bool // value: this round trip is the first of its operation
		grant   chan struct{}
		done    chan struct{}
		first   bool
		gc      bool
		event   string // what the last round trip of a collector did to the server ("" = nothing)
		results []string
		state   int // 0 running, 1 parked, 2 done
		atFirst bool
	}
	short := func(k string) string { // IPv4_S_<hex> -> v4S:<hex>
		if len(k) < 8 {
			return "?" + k
		}
		return "v" + k[3:4] + k[5:6] + ":" + k[7:]
	}
	ths := make([]*thr, n)
	for t := 0; t < n; t++ {
		ps, err := redis.New(redis.Config{RedisBroker: "redis://@" + rig.mr.Addr() + "/0", GarbageCollectionInterval: time.Hour,
			PrometheusReportingInterval: time.Hour, PeerLifetime: time.Hour, RedisReadTimeout: 10 * time.Second,
			RedisWriteTimeout: 10 * time.Second, RedisConnectTimeout: 10 * time.Second})
		if err != nil {
			return "-", "new-failed"
		}
		th := &thr{ps: ps, parked: make(chan bool), grant: make(chan struct{}), done: make(chan struct{})}
		th.gc = len(progs[t]) == 1 && progs[t][0].kind == "gc"
		ths[t] = th
		redis.VerifTraceConn(ps, func(string) {
			f := th.first
			th.first = false
			th.parked <- f
			<-th.grant
		}, func(cmd string, sent [][]interface{}, reply interface{}, err error) {
			th.event = ""
			switch cmd {
			case "EXEC":
				arr, ok := reply.([]interface{})
				if err != nil || !ok || len(arr) == 0 || len(sent) < 2 || len(sent[1]) < 3 {
					if th.gc {
						lastSchedDiscards++
					}
					return // discarded (or not a group of the collector)
				}
				key := fmt.Sprint(sent[1][1])
				if key == "IPv4" || key == "IPv6" {
					th.event = "I:" + short(fmt.Sprint(sent[1][2]))
				} else {
					th.event = "H:" + short(key)
				}
			case "DECRBY", "DECR", "INCR":
				th.event = "d"
			}
		})
	}
	var order []([2]int) // (thread, index of the operation in its program)
	started := make([]int, n)
	wait := func(t int) {
		th := ths[t]
		select {
		case f := <-th.parked:
			th.state = 1
			th.atFirst = f
		case <-th.done:
			th.state = 2
		case <-time.After(20 * time.Second):
			th.state = 2
			th.results = append(th.results, "STUCK")
		}
	}
	for t := 0; t < n; t++ {
		go func(t int) {
			th := ths[t]
			defer close(th.done)
			defer func() {
				if p := recover(); p != nil {
					th.results = append(th.results, "PANIC")
				}
			}()
			for _, o := range progs[t] {
				if o.kind == "gc" {
					cut, _ := strconv.ParseInt(o.pk, 10, 64)
					if err := redis.VerifCollectGarbage(th.ps, cut); err != nil {
						th.results = append(th.results, "gc-err")
					}
					continue
				}
				p := peerFromKey(unhx(o.pk))
				th.first = true
				var err error
				switch o.kind {
				case "ps":
					err = th.ps.PutSeeder(ih, p)
				case "pl":
					err = th.ps.PutLeecher(ih, p)
				case "gr":
					err = th.ps.GraduateLeecher(ih, p)
				case "ds":
					err = th.ps.DeleteSeeder(ih, p)
				case "dl":
					err = th.ps.DeleteLeecher(ih, p)
				}
				switch {
				case err == nil:
					th.results = append(th.results, "ok")
				case err == storage.ErrResourceDoesNotExist:
					th.results = append(th.results, "notexist")
				default:
					th.results = append(th.results, "err")
				}
			}
		}(t)
		wait(t)
	}
	var trace []string
	step := func(t int) {
		th := ths[t]
		if th.state != 1 {
			return
		}
		if th.atFirst && !th.gc {
			order = append(order, [2]int{t, started[t]})
			started[t]++
		}
		th.event = ""
		th.grant <- struct{}{}
		wait(t)
		if !th.gc {
			trace = append(trace, strconv.Itoa(t))
		} else if th.event != "" {
			trace = append(trace, strconv.Itoa(t)+":"+th.event)
		}
	}
	for _, t := range sched {
		if t >= 0 && t < n {
			step(t)
		}
	}
	mid := redisDump(rig.mr)
	trace = append(trace, "|")
	for t := 0; t < n; t++ {
		for ths[t].state == 1 {
			step(t)
		}
	}
	var lg []string
	for _, e := range order {
		r := "MISSING"
		if e[1] < len(ths[e[0]].results) {
			r = ths[e[0]].results[e[1]]
		}
		lg = append(lg, fmt.Sprintf("%d:%s", e[0], r))
	}
	gcres := ""
	for t, th := range ths {
		if th.gc && len(th.results) > 0 {
			gcres += fmt.Sprintf(" gc%d=%s", t, strings.Join(th.results, "+"))
		}
		<-th.ps.Stop()
	}
	return strings.Join(trace, ","), "mid=" + mid + " log=[" + strings.Join(lg, ",") + "]" + gcres
}
