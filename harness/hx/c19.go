package main

// C19: bencode round trip and decoder safety against the real frontend/http/bencode.

import (
	"bytes"
	"fmt"
	"runtime"
	"sort"
	"strconv"
	"strings"
	"time"

	"github.com/chihaya/chihaya/frontend/http/bencode"
)

func init() { gens["C19"] = &Gen{Run: runC19, Replay: replayC19} }

// canonical printing, same format as the Lean driver
func canonB(v interface{}) string {
	switch x := v.(type) {
	case int64:
		return "i" + strconv.FormatInt(x, 10)
	case string:
		return "s" + hx([]byte(x))
	case bencode.List:
		return canonList([]interface{}(x))
	case []interface{}:
		return canonList(x)
	case bencode.Dict:
		return canonDict(map[string]interface{}(x))
	case map[string]interface{}:
		return canonDict(x)
	default:
		return fmt.Sprintf("?%T", v)
	}
}
func canonList(l []interface{}) string {
	p := make([]string, len(l))
	for i, e := range l {
		p[i] = canonB(e)
	}
	return "l[" + strings.Join(p, ",") + "]"
}
func canonDict(d map[string]interface{}) string {
	ks := make([]string, 0, len(d))
	for k := range d {
		ks = append(ks, k)
	}
	sort.Strings(ks)
	p := make([]string, len(ks))
	for i, k := range ks {
		p[i] = hx([]byte(k)) + ":" + canonB(d[k])
	}
	return "d{" + strings.Join(p, ",") + "}"
}

// refEnc: the harness's own (independent) canonical encoder, keys sorted.
func refEnc(v interface{}) []byte {
	switch x := v.(type) {
	case int64:
		return []byte("i" + strconv.FormatInt(x, 10) + "e")
	case string:
		return append([]byte(strconv.Itoa(len(x))+":"), x...)
	case []interface{}:
		out := []byte("l")
		for _, e := range x {
			out = append(out, refEnc(e)...)
		}
		return append(out, 'e')
	case map[string]interface{}:
		ks := make([]string, 0, len(x))
		for k := range x {
			ks = append(ks, k)
		}
		sort.Strings(ks)
		out := []byte("d")
		for _, k := range ks {
			out = append(out, refEnc(k)...)
			out = append(out, refEnc(x[k])...)
		}
		return append(out, 'e')
	}
	panic("refEnc")
}

// toGo converts a plain tree into the Go values Marshal supports, varying the container types.
func toGo(r *Rng, v interface{}) interface{} {
	switch x := v.(type) {
	case []interface{}:
		out := make([]interface{}, len(x))
		for i, e := range x {
			out[i] = toGo(r, e)
		}
		if t := typedList(r, out); t != nil {
			return t
		}
		if r.Bool() {
			return bencode.List(out)
		}
		return out
	case map[string]interface{}:
		out := make(map[string]interface{}, len(x))
		for k, e := range x {
			out[k] = toGo(r, e)
		}
		if r.Bool() {
			return bencode.Dict(out)
		}
		return out
	case string:
		if r.Bool() {
			return []byte(x)
		}
		return x
	case int64:
		// every Go integer type the encoder accepts, whenever the value fits it exactly
		var cands []interface{}
		cands = append(cands, x)
		if int64(int(x)) == x {
			cands = append(cands, int(x))
		}
		if x >= -1<<15 && x < 1<<15 {
			cands = append(cands, int16(x))
		}
		if x >= -1<<31 && x < 1<<31 {
			cands = append(cands, int32(x))
		}
		if x >= 0 {
			cands = append(cands, uint64(x), uint(x))
			if x < 1<<16 {
				cands = append(cands, uint16(x))
			}
			if x < 1<<32 {
				cands = append(cands, uint32(x))
			}
		}
		if x > -9e9 && x < 9e9 { // a duration of x seconds (encoded as seconds)
			cands = append(cands, time.Duration(x)*time.Second)
		}
		return cands[r.Intn(len(cands))]
	}
	return v
}

// typedLists: a list of strings may be handed over as []string, a list of dictionaries as []bencode.Dict
func typedList(r *Rng, out []interface{}) interface{} {
	if len(out) == 0 || r.Bool() {
		return nil
	}
	allS, allD := true, true
	for _, e := range out {
		if _, ok := e.(string); !ok {
			allS = false
		}
		if _, ok := e.(bencode.Dict); !ok {
			allD = false
		}
	}
	if allS {
		l := make([]string, len(out))
		for i, e := range out {
			l[i] = e.(string)
		}
		return l
	}
	if allD {
		l := make([]bencode.Dict, len(out))
		for i, e := range out {
			l[i] = e.(bencode.Dict)
		}
		return l
	}
	return nil
}

var intBoundary = []int64{0, 1, -1, 9, 10, -10, 255, 256, 1 << 31, -(1 << 31), 1<<63 - 1, -(1 << 63), 1<<63 - 2, -(1<<63 - 1), 1800, 4096}
var strLens = []int{0, 1, 2, 9, 10, 11, 19, 20, 99, 100, 101, 4094, 4095, 4096, 4097, 5000, 8192}

func genStr(r *Rng, big bool) string {
	n := 0
	switch r.Intn(10) {
	case 0, 1, 2, 3, 4:
		n = r.Intn(12)
	case 5, 6:
		n = strLens[r.Intn(len(strLens))]
	case 7:
		n = r.Intn(300)
	case 8:
		if big {
			n = 4000 + r.Intn(6000)
		} else {
			n = r.Intn(40)
		}
	case 9:
		if big && r.Intn(20) == 0 {
			n = 60000 + r.Intn(40001)
		} else {
			n = r.Intn(64)
		}
	}
	if r.Intn(3) == 0 {
		// structure-looking content
		alphabet := "ilde:0123456789-"
		b := make([]byte, n)
		for i := range b {
			b[i] = alphabet[r.Intn(len(alphabet))]
		}
		return string(b)
	}
	return string(r.Bytes(n))
}

func genTree(r *Rng, depth int, big bool) interface{} {
	k := r.Intn(10)
	if depth <= 0 && k >= 6 {
		k = r.Intn(6)
	}
	switch {
	case k < 3:
		if r.Bool() {
			return intBoundary[r.Intn(len(intBoundary))]
		}
		return int64(r.U64())
	case k < 6:
		return genStr(r, big)
	case k < 8:
		n := r.Intn(5)
		l := make([]interface{}, n)
		for i := range l {
			l[i] = genTree(r, depth-1, big && n < 3)
		}
		return l
	default:
		n := r.Intn(5)
		d := map[string]interface{}{}
		for i := 0; i < n; i++ {
			d[genStr(r, false)] = genTree(r, depth-1, big && n < 3)
		}
		return d
	}
}

func treeDepth(v interface{}) int {
	switch x := v.(type) {
	case []interface{}:
		m := 0
		for _, e := range x {
			if d := treeDepth(e); d > m {
				m = d
			}
		}
		return m + 1
	case map[string]interface{}:
		m := 0
		for _, e := range x {
			if d := treeDepth(e); d > m {
				m = d
			}
		}
		return m + 1
	}
	return 0
}

// plain converts decoder output (bencode.List/Dict) to plain trees.
func plain(v interface{}) interface{} {
	switch x := v.(type) {
	case bencode.List:
		out := make([]interface{}, len(x))
		for i, e := range x {
			out[i] = plain(e)
		}
		return out
	case bencode.Dict:
		out := map[string]interface{}{}
		for k, e := range x {
			out[k] = plain(e)
		}
		return out
	}
	return v
}

// decObs runs the real Unmarshal under recover and with an allocation budget.
func decObs(in []byte) (obs string) {
	defer func() {
		if p := recover(); p != nil {
			obs = "PANIC " + strings.Fields(fmt.Sprint(p))[0]
		}
	}()
	var m0, m1 runtime.MemStats
	measure := len(in) >= 16
	if measure {
		runtime.ReadMemStats(&m0)
	}
	v, err := bencode.Unmarshal(in)
	if measure {
		runtime.ReadMemStats(&m1)
		if d := m1.TotalAlloc - m0.TotalAlloc; d > uint64(64*len(in))+(1<<20) {
			return fmt.Sprintf("ALLOC %d for %d input bytes", d, len(in))
		}
	}
	if err != nil {
		return "err"
	}
	return "ok " + canonB(v)
}

// benc.stream: the streaming API (NewDecoder / Decode) on a concatenation of values (and whatever follows them)
func emitStream(c *Ctx, in []byte) {
	obs := func() (o string) {
		defer func() {
			if p := recover(); p != nil {
				o = "PANIC " + strings.Fields(fmt.Sprint(p))[0]
			}
		}()
		d := bencode.NewDecoder(bytes.NewReader(in))
		var vs []string
		for i := 0; i < 8; i++ {
			v, err := d.Decode()
			if err != nil {
				break
			}
			vs = append(vs, canonB(v))
		}
		return "vals=[" + strings.Join(vs, ";") + "]"
	}()
	c.Emit("benc.stream in="+hx(in), obs)
}

func emitDec(c *Ctx, in []byte, kind string) {
	c.Kind("dec." + kind)
	c.Emit("benc.dec in="+hx(in), decObs(in))
}

func emitRt(c *Ctx, tree interface{}) {
	ref := refEnc(tree)
	var got []byte
	obs := func() (o string) {
		defer func() {
			if p := recover(); p != nil {
				o = "PANIC"
			}
		}()
		var err error
		got, err = bencode.Marshal(toGo(c.R, tree))
		if err != nil {
			return "marshal-err"
		}
		v, err := bencode.Unmarshal(got)
		if err != nil {
			return "same=0 len=1 self=1 sorted=? (unmarshal: " + strings.ReplaceAll(err.Error(), " ", "_") + ")"
		}
		return "same=" + b01(canonB(plain(v)) == canonB(tree)) + " len=" + b01(len(got) == len(ref)) + " self=1 sorted=" + b01(string(got) == string(ref))
	}()
	c.Kind(fmt.Sprintf("rt.depth%d", treeDepth(tree)))
	c.Emit("benc.rt ref="+hx(ref)+" got="+hx(got), obs)
}

// benc.deep: n containers opened one inside the other — never closed (kind=open), closed again (kind=list), or as a
// chain of one-entry dictionaries (kind=dict). Far too long for the op line, so the input is rebuilt from (kind, n).
// The decoder recurses once per level: it must answer (a value up to its nesting bound, an error beyond it), not
// exhaust the stack — which would be the end of the process, reported by ./check as crash.detected with this case.
func emitDeep(c *Ctx, kind string, n int) {
	op := fmt.Sprintf("benc.deep kind=%s n=%d", kind, n)
	c.Begin(op)
	var in []byte
	switch kind {
	case "open":
		in = bytes.Repeat([]byte{'l'}, n)
	case "list":
		in = append(bytes.Repeat([]byte{'l'}, n), bytes.Repeat([]byte{'e'}, n)...)
	case "dict":
		in = append(append(bytes.Repeat([]byte("d1:a"), n), []byte("i0e")...), bytes.Repeat([]byte{'e'}, n)...)
	}
	obs := func() (o string) {
		defer func() {
			if p := recover(); p != nil {
				o = "PANIC " + strings.Fields(fmt.Sprint(p))[0]
			}
		}()
		v, err := bencode.Unmarshal(in)
		if err != nil {
			return "err"
		}
		return fmt.Sprintf("ok depth=%d", treeDepthAny(v))
	}()
	c.Emit(op, obs)
}

// treeDepthAny: nesting depth of a decoded value, without recursion (the value may be 10000 levels deep)
func treeDepthAny(v interface{}) int {
	d := 0
	for {
		switch x := v.(type) {
		case bencode.List:
			d++
			if len(x) == 0 {
				return d
			}
			v = x[0]
		case []interface{}:
			d++
			if len(x) == 0 {
				return d
			}
			v = x[0]
		case bencode.Dict:
			d++
			if len(x) == 0 {
				return d
			}
			for _, e := range x {
				v = e
				break
			}
		case map[string]interface{}:
			d++
			if len(x) == 0 {
				return d
			}
			for _, e := range x {
				v = e
				break
			}
		default:
			return d
		}
	}
}

func replayC19(c *Ctx, op string, a map[string]string) {
	if op == "benc.deep" {
		n, _ := strconv.Atoi(a["n"])
		emitDeep(c, a["kind"], n)
		return
	}
	if op == "benc.stream" {
		emitStream(c, unhx(a["in"]))
		return
	}
	switch op {
	case "benc.dec":
		emitDec(c, unhx(a["in"]), "replay")
	case "benc.rt":
		v, err := bencode.Unmarshal(unhx(a["ref"]))
		if err != nil {
			// the reference cannot even be read by the implementation: report it as a decode case
			emitDec(c, unhx(a["ref"]), "replay")
			return
		}
		emitRt(c, plain(v))
	}
}

func runC19(c *Ctx) {
	for _, l := range c.CorpusLines() {
		op, a := parseOp(l)
		replayC19(c, op, a)
	}
	r := c.R
	big := true
	// nesting: around the decoder's bound, and far beyond any stack
	for _, kind := range []string{"open", "list", "dict"} {
		for _, n := range []int{1, 2, 100, 9999, 10000, 10001, 20000, 8 << 20} {
			emitDeep(c, kind, n)
		}
	}
	// boundary stream: string lengths around the bufio buffer, and every declared length vs. received
	for _, n := range strLens {
		emitRt(c, strings.Repeat("a", n))
		emitRt(c, []interface{}{strings.Repeat("b", n), int64(n)})
	}
	if c.Tier == "thorough" {
		for _, n := range []int{16384, 65535, 65536, 100000} {
			emitRt(c, strings.Repeat("z", n))
		}
	} else {
		emitRt(c, strings.Repeat("z", 100000))
	}
	for _, i := range intBoundary {
		emitRt(c, i)
	}
	// malformed length prefixes and integers
	for _, s := range []string{"-1:abc", "9223372036854775807:abc", "9223372036854775808:abc", "1000000000:abc", "4:abc", "3:abc", "0:", "00:", "01:a", "+1:a",
		"-0:", "i-0e", "i+5e", "i05e", "ie", "i-e", "i5", "i 5e", "i5 e", "i9223372036854775807e", "i9223372036854775808e", "i-9223372036854775808e", "i-9223372036854775809e",
		"l", "d", "le", "de", "lle", "d1:ae", "di1ei2ee", "d1:a1:b1:a1:ce", "d1:ali1ei2ee1:b0:e", "e", "", "x", ":", "1:", "5", "l5e", "d3:key", "i1_0e", "i0x10e", "1_0:aaaaaaaaaa"} {
		emitDec(c, []byte(s), "fixed")
	}
	// digit runs around the 4096-byte scan limit
	for _, n := range []int{4094, 4095, 4096, 4097} {
		emitDec(c, []byte("i"+strings.Repeat("0", n-1)+"7e"), "longint")
		emitDec(c, []byte(strings.Repeat("0", n-1)+"3:abc"), "longlen")
	}
	// deep nesting
	for _, d := range []int{1, 6, 50, 400} {
		emitDec(c, []byte(strings.Repeat("l", d)+strings.Repeat("e", d)), "deep")
		emitDec(c, []byte(strings.Repeat("d1:a", d)+"i1e"+strings.Repeat("e", d)), "deep")
	}
	for i := 0; i < c.N; i++ {
		if i%7 == 0 { // the streaming decoder on several values back to back, possibly cut or followed by junk
			var in []byte
			for k := 0; k < 1+r.Intn(4); k++ {
				in = append(in, refEnc(genTree(r, 1+r.Intn(3), false))...)
			}
			switch r.Intn(4) {
			case 0:
				in = in[:r.Intn(len(in)+1)]
			case 1:
				in = append(in, r.Bytes(1+r.Intn(3))...)
			}
			emitStream(c, in)
		}
		switch r.Intn(10) {
		case 0, 1, 2, 3:
			emitRt(c, genTree(r, 1+r.Intn(6), big))
		case 4, 5:
			// truncation / extension of a valid encoding at a random position
			enc := refEnc(genTree(r, 1+r.Intn(4), false))
			if len(enc) > 0 && r.Bool() {
				enc = enc[:r.Intn(len(enc)+1)]
			} else {
				enc = append(enc, r.Bytes(r.Intn(4))...)
			}
			emitDec(c, enc, "trunc")
		case 6, 7:
			// byte flip in a valid encoding
			enc := refEnc(genTree(r, 1+r.Intn(4), false))
			if len(enc) > 0 {
				enc[r.Intn(len(enc))] = "ilde:0123456789-\x00\xff"[r.Intn(18)]
			}
			emitDec(c, enc, "flip")
		case 8:
			// structure-looking garbage
			n := r.Intn(40)
			b := make([]byte, n)
			for j := range b {
				b[j] = "ilde:0123456789-ab"[r.Intn(18)]
			}
			emitDec(c, b, "garbage")
		case 9:
			emitDec(c, r.Bytes(r.Intn(64)), "raw")
		}
	}
}
