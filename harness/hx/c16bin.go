package main

// C16 / C20 through the real executable: cmd/chihaya is built from the tree under test and started with a
// configuration file. Start-up must refuse unknown hook / storage names and out-of-range hook options; a good
// configuration serves, keeps its swarm over a reload signal — and keeps serving *steadily* afterwards (no further
// restarts) — and exits cleanly on SIGTERM with its ports closed.

import (
	"bytes"
	"fmt"
	"net"
	"net/http"
	"os"
	"os/exec"
	"path/filepath"
	"strings"
	"sync"
	"syscall"
	"time"

	abencode "github.com/anacrolix/torrent/bencode"
)

var (
	binOnce sync.Once
	binPath string
	binErr  error
	binDir  string
)

func chihayaBinary() (string, error) {
	binOnce.Do(func() {
		repo := os.Getenv("VERIF_REPO")
		if repo == "" {
			repo = "/repo"
		}
		binDir, binErr = os.MkdirTemp("", "verif-bin-")
		if binErr != nil {
			return
		}
		binPath = filepath.Join(binDir, "chihaya")
		cmd := exec.Command("go", "build", "-o", binPath, "./cmd/chihaya")
		cmd.Dir = repo
		cmd.Env = append(os.Environ(), "GOFLAGS=-mod=mod", "GOPROXY=off", "GOSUMDB=off", "GOTOOLCHAIN=local", "CGO_ENABLED=0")
		if out, err := cmd.CombinedOutput(); err != nil {
			binErr = fmt.Errorf("go build ./cmd/chihaya: %v: %s", err, out)
		}
	})
	return binPath, binErr
}

func binConfig(scenario string, httpPort, udpPort, metricsPort int) string {
	pre := ""
	store := "name: memory\n    config:\n      shard_count: 2\n      gc_interval: 3m\n      peer_lifetime: 31m\n      prometheus_reporting_interval: 1s"
	switch scenario {
	case "bad-hook":
		pre = "  prehooks:\n  - name: no such hook\n"
	case "bad-posthook":
		pre = "  posthooks:\n  - name: client approvals\n"
	case "bad-store":
		store = "name: no such store\n    config: {}"
	case "bad-option":
		pre = "  prehooks:\n  - name: interval variation\n    options:\n      modify_response_probability: 2.5\n      max_increase_delta: 60\n"
	case "bad-option-nan":
		pre = "  prehooks:\n  - name: interval variation\n    options:\n      modify_response_probability: .nan\n      max_increase_delta: 60\n"
	case "bad-lists":
		pre = "  prehooks:\n  - name: client approval\n    options:\n      whitelist: [\"lt0D60\"]\n      blacklist: [\"UT1234\"]\n"
	case "good-hooks":
		pre = "  prehooks:\n  - name: client approval\n    options:\n      blacklist: [\"UT1234\"]\n  - name: interval variation\n    options:\n      modify_response_probability: 0.5\n      max_increase_delta: 60\n      modify_min_interval: true\n"
	}
	metrics := ""
	if scenario == "good-metrics" {
		metrics = fmt.Sprintf("127.0.0.1:%d", metricsPort)
	}
	return fmt.Sprintf("chihaya:\n  announce_interval: 30m\n  min_announce_interval: 15m\n  metrics_addr: \""+metrics+"\"\n  http:\n    addr: \"127.0.0.1:%d\"\n    announce_routes: [\"/announce\"]\n    scrape_routes: [\"/scrape\"]\n    read_timeout: 5s\n    write_timeout: 5s\n  udp:\n    addr: \"127.0.0.1:%d\"\n    private_key: \"verif\"\n  storage:\n    %s\n%s", httpPort, udpPort, store, pre)
}

func lifeBinary(c *Ctx, scenario string) {
	op := "life.binary scenario=" + scenario
	c.Begin(op)
	obs := func() (o string) {
		defer func() {
			if p := recover(); p != nil {
				o = "PANIC " + strings.Fields(fmt.Sprint(p))[0]
			}
		}()
		bin, err := chihayaBinary()
		if err != nil {
			return "BUILD-FAILED " + strings.ReplaceAll(err.Error(), "\n", " ")[:120]
		}
		// ports outside the ephemeral range: nothing else on the machine takes them between this choice and the bind
		hp := privatePort()
		up := privatePort()
		dir, _ := os.MkdirTemp("", "verif-cfg-")
		defer os.RemoveAll(dir)
		cfgPath := filepath.Join(dir, "chihaya.yaml")
		mp := privatePort()
		_ = os.WriteFile(cfgPath, []byte(binConfig(scenario, hp, up, mp)), 0o600)
		var logs bytes.Buffer
		cmd := exec.Command(bin, "--config", cfgPath, "--nocolors")
		cmd.Stdout, cmd.Stderr = &logs, &logs
		if err := cmd.Start(); err != nil {
			return "START-FAILED"
		}
		exited := make(chan error, 1)
		go func() { exited <- cmd.Wait() }()
		kill := func() { _ = cmd.Process.Kill(); <-exited }
		cl := &http.Client{Timeout: 2 * time.Second, Transport: &http.Transport{DisableKeepAlives: true}}
		base := fmt.Sprintf("http://127.0.0.1:%d", hp)
		scrape := func() string {
			resp, err := cl.Get(base + "/scrape?info_hash=aaaaaaaaaaaaaaaaaaaa")
			if err != nil {
				return "down"
			}
			defer resp.Body.Close()
			var buf bytes.Buffer
			_, _ = buf.ReadFrom(resp.Body)
			var v map[string]interface{}
			if abencode.Unmarshal(buf.Bytes(), &v) != nil {
				return "undecodable"
			}
			files, _ := v["files"].(map[string]interface{})
			f, _ := files["aaaaaaaaaaaaaaaaaaaa"].(map[string]interface{})
			return fmt.Sprintf("%v/%v", f["complete"], f["incomplete"])
		}
		// the metrics server of the executable (pkg/metrics): answers with the storage gauges while the tracker runs
		metricsUp := func() string {
			if scenario != "good-metrics" {
				return "-"
			}
			for i := 0; i < 50; i++ {
				resp, err := cl.Get(fmt.Sprintf("http://127.0.0.1:%d/metrics", mp))
				if err == nil {
					var buf bytes.Buffer
					_, _ = buf.ReadFrom(resp.Body)
					resp.Body.Close()
					return b01(resp.StatusCode == 200 && strings.Contains(buf.String(), "chihaya_storage_leechers_count"))
				}
				time.Sleep(40 * time.Millisecond)
			}
			return "0"
		}
		waitUp := func(d time.Duration) bool {
			dl := time.Now().Add(d)
			for time.Now().Before(dl) {
				select {
				case <-exited:
					exited <- nil
					return false
				default:
				}
				if s := scrape(); s != "down" {
					return true
				}
				time.Sleep(20 * time.Millisecond)
			}
			return false
		}
		if strings.HasPrefix(scenario, "bad-") {
			select {
			case err := <-exited:
				if err == nil {
					return "exited-zero"
				}
				return "refused"
			case <-time.After(4 * time.Second):
				up := scrape() != "down"
				kill()
				return fmt.Sprintf("STARTED serving=%v", up)
			}
		}
		if !waitUp(5 * time.Second) {
			kill()
			return "never-served " + lastLine(logs.String())
		}
		if resp, err := cl.Get(base + "/announce?info_hash=aaaaaaaaaaaaaaaaaaaa&peer_id=-TR2940-bbbbbbbbbbbb&port=6881&left=5&downloaded=0&uploaded=0&compact=1"); err == nil {
			resp.Body.Close()
		}
		before := scrape()
		for i := 0; i < 150 && before == "0/0"; i++ { // the swarm is updated after the response has been written
			time.Sleep(20 * time.Millisecond)
			before = scrape()
		}
		mBefore := metricsUp()
		// reload: the store is kept
		_ = cmd.Process.Signal(syscall.SIGUSR1)
		time.Sleep(300 * time.Millisecond)
		if !waitUp(5 * time.Second) {
			kill()
			return "before=" + before + " not-serving-after-reload " + lastLine(logs.String())
		}
		after := scrape()
		mAfter := metricsUp()
		// … and the tracker is steady afterwards: over the next second it is up at every probe and does not restart again
		restartsBefore := strings.Count(logs.String(), "reloading; received reload signal")
		downs := 0
		for i := 0; i < 25; i++ {
			if scrape() == "down" {
				downs++
			}
			time.Sleep(40 * time.Millisecond)
		}
		restarts := strings.Count(logs.String(), "reloading; received reload signal")
		steady := downs == 0 && restarts == restartsBefore && restarts == 1
		_ = cmd.Process.Signal(syscall.SIGTERM)
		code := "timeout"
		select {
		case err := <-exited:
			code = "0"
			if err != nil {
				code = "nonzero"
			}
		case <-time.After(6 * time.Second):
			kill()
		}
		closed := true
		if conn, err := net.DialTimeout("tcp", fmt.Sprintf("127.0.0.1:%d", hp), 200*time.Millisecond); err == nil {
			conn.Close()
			closed = false
		}
		mClosed := "-"
		if scenario == "good-metrics" {
			mClosed = "1"
			if conn, err := net.DialTimeout("tcp", fmt.Sprintf("127.0.0.1:%d", mp), 200*time.Millisecond); err == nil {
				conn.Close()
				mClosed = "0"
			}
		}
		return fmt.Sprintf("served=1 before=%s after_reload=%s steady_after_reload=%s reloads=%d exit=%s port_closed=%s metrics=%s/%s/%s", before, after, b01(steady), restarts, code, b01(closed), mBefore, mAfter, mClosed)
	}()
	c.Emit(op, obs)
}

func lastLine(s string) string {
	ls := strings.Split(strings.TrimSpace(s), "\n")
	l := ls[len(ls)-1]
	if len(l) > 160 {
		l = l[:160]
	}
	return strings.ReplaceAll(l, " ", "_")
}

func cleanupBinary() {
	if binDir != "" {
		os.RemoveAll(binDir)
	}
}
