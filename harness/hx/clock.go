package main

// The cached clock (pkg/timecache) follows real time: each tick stores the wall time of that tick, so after the
// process has been held up (SIGSTOP, a suspended VM, a long stall: the ticker drops the ticks nobody received) the
// cached clock is back within one interval of the wall clock. Stores stamp peers with it while the expiry loop
// compares against the wall clock (C05), and UDP connection IDs carry it (C10).

import (
	"fmt"
	"os"
	"os/exec"
	"strings"
	"time"

	"github.com/chihaya/chihaya/pkg/timecache"
)

func clockStall(c *Ctx, stallMs int) {
	op := fmt.Sprintf("clock.stall ms=%d", stallMs)
	c.Begin(op)
	obs := func() (o string) {
		defer func() {
			if p := recover(); p != nil {
				o = "PANIC " + strings.Fields(fmt.Sprint(p))[0]
			}
		}()
		tc := timecache.New()
		go tc.Run(20 * time.Millisecond)
		defer tc.Stop()
		time.Sleep(120 * time.Millisecond)
		lag0 := time.Since(tc.Now())
		unixOK := tc.NowUnix() == tc.Now().Unix()
		// hold the whole process up from outside
		t0 := time.Now()
		cmd := exec.Command("sh", "-c", fmt.Sprintf("kill -STOP %d; sleep %d.%03d; kill -CONT %d", os.Getpid(), stallMs/1000, stallMs%1000, os.Getpid()))
		if err := cmd.Start(); err != nil {
			return "no-shell"
		}
		_ = cmd.Wait()
		held := time.Since(t0) >= time.Duration(stallMs)*time.Millisecond*8/10
		time.Sleep(120 * time.Millisecond)
		lag1 := time.Since(tc.Now())
		return fmt.Sprintf("fresh_before=%s unix_consistent=%s held=%s caught_up_after=%s", b01(lag0 >= 0 && lag0 < 250*time.Millisecond), b01(unixOK), b01(held), b01(lag1 >= 0 && lag1 < 250*time.Millisecond))
	}()
	c.Emit(op, obs)
}
