package main

// C20: configuration defaulting — the four real Config.Validate methods on boundary products,
// driver registries, Redis URL parsing, and "the store is built from the validated config".

import (
	"bufio"
	"crypto/tls"
	"errors"
	"fmt"
	"github.com/chihaya/chihaya/pkg/stop"
	"github.com/chihaya/chihaya/pkg/timecache"
	"io"
	"math"
	"math/big"
	"net"
	"net/http"
	"net/url"
	"os"
	"strconv"
	"strings"
	"time"

	"github.com/alicebob/miniredis"

	"github.com/chihaya/chihaya/bittorrent"
	httpfe "github.com/chihaya/chihaya/frontend/http"
	udpfe "github.com/chihaya/chihaya/frontend/udp"
	"github.com/chihaya/chihaya/middleware"
	_ "github.com/chihaya/chihaya/middleware/clientapproval"
	_ "github.com/chihaya/chihaya/middleware/jwt"
	_ "github.com/chihaya/chihaya/middleware/torrentapproval"
	_ "github.com/chihaya/chihaya/middleware/varinterval"
	"github.com/chihaya/chihaya/storage"
	"github.com/chihaya/chihaya/storage/memory"
	"github.com/chihaya/chihaya/storage/redis"
)

func init() { gens["C20"] = &Gen{Run: runC20, Replay: replayC20} }

var durVals = []int64{math.MinInt64, -1e9, -1, 0, 1, 1e9, 15e9, 1800e9, math.MaxInt64 / 2, math.MaxInt64/2 + 1, math.MaxInt64}
var u32Vals = []int64{0, 1, 2, 50, 100, 101, math.MaxUint32 - 1, math.MaxUint32}
var intVals = []int64{math.MinInt64, -1, 0, 1, 2, 1024, math.MaxInt64 / 2, math.MaxInt64/2 + 1, math.MaxInt64}

func pick(r *Rng, xs []int64) int64 { return xs[r.Intn(len(xs))] }

func valHTTP(c *Ctx, rt, wt, it, mnw, dnw, msi int64) {
	cfg := httpfe.Config{ReadTimeout: time.Duration(rt), WriteTimeout: time.Duration(wt), IdleTimeout: time.Duration(it),
		ParseOptions: httpfe.ParseOptions{MaxNumWant: uint32(mnw), DefaultNumWant: uint32(dnw), MaxScrapeInfoHashes: uint32(msi)}}
	v := cfg.Validate()
	w := v.Validate()
	show := func(x httpfe.Config) string {
		return fmt.Sprintf("ReadTimeout=%d WriteTimeout=%d IdleTimeout=%d MaxNumWant=%d DefaultNumWant=%d MaxScrapeInfoHashes=%d",
			int64(x.ReadTimeout), int64(x.WriteTimeout), int64(x.IdleTimeout), x.MaxNumWant, x.DefaultNumWant, x.MaxScrapeInfoHashes)
	}
	c.Emit(fmt.Sprintf("cfg.validate pkg=http ReadTimeout=%d WriteTimeout=%d IdleTimeout=%d MaxNumWant=%d DefaultNumWant=%d MaxScrapeInfoHashes=%d", rt, wt, it, mnw, dnw, msi),
		show(v)+" idem="+b01(show(w) == show(v)))
}

func valUDP(c *Ctx, keyEmpty bool, mnw, dnw, msi, skew int64) {
	key := "k"
	if keyEmpty {
		key = ""
	}
	cfg := udpfe.Config{PrivateKey: key, MaxClockSkew: time.Duration(skew), ParseOptions: udpfe.ParseOptions{MaxNumWant: uint32(mnw), DefaultNumWant: uint32(dnw), MaxScrapeInfoHashes: uint32(msi)}}
	v := cfg.Validate()
	w := v.Validate()
	show := func(x udpfe.Config) string {
		return fmt.Sprintf("PrivateKeyEmpty=%s MaxNumWant=%d DefaultNumWant=%d MaxScrapeInfoHashes=%d MaxClockSkew=%d", b01(x.PrivateKey == ""), x.MaxNumWant, x.DefaultNumWant, x.MaxScrapeInfoHashes, int64(x.MaxClockSkew))
	}
	idem := show(w) == show(v) && w.PrivateKey == v.PrivateKey
	c.Emit(fmt.Sprintf("cfg.validate pkg=udp PrivateKeyEmpty=%s MaxNumWant=%d DefaultNumWant=%d MaxScrapeInfoHashes=%d MaxClockSkew=%d", b01(keyEmpty), mnw, dnw, msi, skew),
		show(v)+" idem="+b01(idem))
}

func valMem(c *Ctx, sc, gc, pr, pl int64) {
	cfg := memory.Config{ShardCount: int(sc), GarbageCollectionInterval: time.Duration(gc), PrometheusReportingInterval: time.Duration(pr), PeerLifetime: time.Duration(pl)}
	v := cfg.Validate()
	w := v.Validate()
	show := func(x memory.Config) string {
		return fmt.Sprintf("ShardCount=%d GarbageCollectionInterval=%d PrometheusReportingInterval=%d PeerLifetime=%d", x.ShardCount, int64(x.GarbageCollectionInterval), int64(x.PrometheusReportingInterval), int64(x.PeerLifetime))
	}
	c.Emit(fmt.Sprintf("cfg.validate pkg=memory ShardCount=%d GarbageCollectionInterval=%d PrometheusReportingInterval=%d PeerLifetime=%d", sc, gc, pr, pl),
		show(v)+" idem="+b01(w == v))
}

func valRedis(c *Ctx, brokerEmpty bool, rt, wt, ct, gc, pr, pl int64) {
	b := "redis://x@127.0.0.1:1/0"
	if brokerEmpty {
		b = ""
	}
	cfg := redis.Config{RedisBroker: b, RedisReadTimeout: time.Duration(rt), RedisWriteTimeout: time.Duration(wt), RedisConnectTimeout: time.Duration(ct),
		GarbageCollectionInterval: time.Duration(gc), PrometheusReportingInterval: time.Duration(pr), PeerLifetime: time.Duration(pl)}
	v := cfg.Validate()
	w := v.Validate()
	show := func(x redis.Config) string {
		return fmt.Sprintf("RedisBrokerEmpty=%s RedisReadTimeout=%d RedisWriteTimeout=%d RedisConnectTimeout=%d GarbageCollectionInterval=%d PrometheusReportingInterval=%d PeerLifetime=%d",
			b01(x.RedisBroker == ""), int64(x.RedisReadTimeout), int64(x.RedisWriteTimeout), int64(x.RedisConnectTimeout), int64(x.GarbageCollectionInterval), int64(x.PrometheusReportingInterval), int64(x.PeerLifetime))
	}
	c.Emit(fmt.Sprintf("cfg.validate pkg=redis RedisBrokerEmpty=%s RedisReadTimeout=%d RedisWriteTimeout=%d RedisConnectTimeout=%d GarbageCollectionInterval=%d PrometheusReportingInterval=%d PeerLifetime=%d", b01(brokerEmpty), rt, wt, ct, gc, pr, pl),
		show(v)+" idem="+b01(w == v))
}

// cfg.hooks: the hook list of a configuration file, through middleware.HooksFromHookConfigs (options travel as
// YAML maps, exactly as cmd/chihaya hands them over); stops at the first refused entry
func cfgHooks(c *Ctx, entries []string) {
	var cfgs []middleware.HookConfig
	for _, e := range entries {
		f := strings.Split(e, ":")
		switch f[0] {
		case "unknown":
			cfgs = append(cfgs, middleware.HookConfig{Name: "no such hook", Options: map[string]interface{}{}})
		case "ca":
			o := map[string]interface{}{"whitelist": []interface{}{"lt0D60", "-AZ303"}}
			switch f[1] {
			case "both":
				o["blacklist"] = []interface{}{"UT1234"}
			case "badlen":
				o["whitelist"] = []interface{}{"lt0D6"}
			}
			cfgs = append(cfgs, middleware.HookConfig{Name: "client approval", Options: o})
		case "ta":
			o := map[string]interface{}{"blacklist": []interface{}{"0123456789abcdef0123456789abcdef01234567"}}
			switch f[1] {
			case "both":
				o["whitelist"] = []interface{}{"89abcdef0123456789abcdef0123456789abcdef"}
			case "badhex":
				o["blacklist"] = []interface{}{"0123456789abcdef0123456789abcdef0123456g"}
			}
			cfgs = append(cfgs, middleware.HookConfig{Name: "torrent approval", Options: o})
		case "vi":
			pn, _ := new(big.Int).SetString(f[1], 10)
			pd, _ := new(big.Int).SetString(f[2], 10)
			p := math.NaN() // "0:0"
			if pd.Sign() != 0 {
				p, _ = new(big.Rat).SetFrac(pn, pd).Float64()
			}
			d, _ := strconv.Atoi(f[3])
			cfgs = append(cfgs, middleware.HookConfig{Name: "interval variation",
				Options: map[string]interface{}{"modify_response_probability": p, "max_increase_delta": d, "modify_min_interval": true}})
		}
	}
	lst := "-"
	if len(entries) > 0 {
		lst = strings.Join(entries, ",")
	}
	op := "cfg.hooks list=" + lst
	obs := func() (o string) {
		defer func() {
			if p := recover(); p != nil {
				o = "PANIC"
			}
		}()
		hooks, err := middleware.HooksFromHookConfigs(cfgs)
		for _, h := range hooks {
			if st, ok := h.(stop.Stopper); ok {
				<-st.Stop()
			}
		}
		if err != nil {
			return fmt.Sprintf("refused at=%d", len(hooks))
		}
		return fmt.Sprintf("built n=%d", len(hooks))
	}()
	c.Emit(op, obs)
}

func genHookLists(c *Ctx, r *Rng, n int) {
	pool := []string{"ca:ok", "ta:ok", "vi:1:2:60", "vi:1:1:1", "ca:ok", "ta:ok", "unknown", "ca:both", "ca:badlen", "ta:both", "ta:badhex",
		"vi:0:1:60", "vi:-1:2:60", "vi:3:2:60", "vi:1:2:0", "vi:1:2:-5", "vi:0:0:60" /* NaN */, "vi:1:1000000:1", "vi:1:2:2147483647", "vi:1:2:2147483648", "vi:1:1:10000000000"}
	cfgHooks(c, nil)
	for _, e := range pool {
		cfgHooks(c, []string{e})
	}
	for i := 0; i < n; i++ {
		var l []string
		for k := 0; k < 1+r.Intn(4); k++ {
			l = append(l, pool[r.Intn(len(pool))])
		}
		cfgHooks(c, l)
	}
}

func cfgNew(c *Ctx, kind, name string, known bool) {
	var err error
	if kind == "hook" {
		_, err = middleware.New(name, []byte("{}"))
		if errors.Is(err, middleware.ErrDriverDoesNotExist) {
			err = storage.ErrDriverDoesNotExist
		} else {
			err = nil // the driver was found; whether its options are acceptable is its own business
		}
	} else {
		var ps storage.PeerStore
		ps, err = storage.NewPeerStore(name, map[string]interface{}{"shard_count": 1})
		if ps != nil {
			<-ps.Stop()
		}
		if !errors.Is(err, storage.ErrDriverDoesNotExist) {
			err = nil
		}
	}
	obs := "built"
	if err != nil {
		obs = "driver-does-not-exist"
	}
	c.Emit(fmt.Sprintf("cfg.new kind=%s known=%s name=%s", kind, b01(known), hx([]byte(name))), obs)
}

func cfgRedisURL(c *Ctx, s string) {
	u, perr := url.Parse(s)
	op := "cfg.redisurl url=" + hx([]byte(s))
	if perr != nil {
		op += " parse_ok=0 scheme_redis=0 path=-"
	} else {
		op += " parse_ok=1 scheme_redis=" + b01(u.Scheme == "redis") + " path=" + hx([]byte(u.Path))
	}
	obs := func() (o string) {
		defer func() {
			if p := recover(); p != nil {
				o = "PANIC"
			}
		}()
		_, _, db, err := redis.VerifParseRedisURL(s)
		if err != nil {
			return "err"
		}
		return fmt.Sprintf("ok db=%d", db)
	}()
	c.Emit(op, obs)
}

// cfgStoreNew builds a real store from a configuration with out-of-range values and uses it.
func cfgStoreNew(c *Ctx, kind string, rt, wt, ct int64, shards int64) {
	op := fmt.Sprintf("cfg.store_new kind=%s rt=%d wt=%d ct=%d shards=%d", kind, rt, wt, ct, shards)
	obs := func() (o string) {
		defer func() {
			if p := recover(); p != nil {
				o = "PANIC " + strings.Fields(fmt.Sprint(p))[0]
			}
		}()
		var ps storage.PeerStore
		var err error
		if kind == "redis" {
			mr, e := miniredis.Run()
			if e != nil {
				return "miniredis-failed"
			}
			// not closed: miniredis v2.5.0 Close() can deadlock against a connection being served
			_ = mr
			ps, err = redis.New(redis.Config{RedisBroker: "redis://@" + mr.Addr() + "/0", RedisReadTimeout: time.Duration(rt),
				RedisWriteTimeout: time.Duration(wt), RedisConnectTimeout: time.Duration(ct)})
		} else {
			ps, err = memory.New(memory.Config{ShardCount: int(shards)})
		}
		if err != nil {
			return "new=err"
		}
		defer func() { <-ps.Stop() }()
		p := bittorrent.Peer{ID: bittorrent.PeerIDFromString("-VF0001-000000000001"), Port: 6881,
			IP: bittorrent.IP{IP: []byte{10, 0, 0, 1}, AddressFamily: bittorrent.IPv4}}
		ih := bittorrent.InfoHashFromString("01234567890123456789")
		if err := ps.PutLeecher(ih, p); err != nil {
			return "put=err"
		}
		if s := ps.ScrapeSwarm(ih, bittorrent.IPv4); s.Incomplete != 1 {
			return "put=lost"
		}
		return "put=ok"
	}()
	c.Emit(op, obs)
}

// cfg.store_bg: the store's own background expiry loop must use the *validated* peer lifetime: a store configured
// without one (or with a non-positive one) keeps a freshly announced peer over several expiry ticks
func cfgStoreBG(c *Ctx, kind string, life, gci int64) {
	op := fmt.Sprintf("cfg.store_bg kind=%s life=%d gci=%d", kind, life, gci)
	c.Begin(op)
	obs := func() (o string) {
		defer func() {
			if p := recover(); p != nil {
				o = "PANIC " + strings.Fields(fmt.Sprint(p))[0]
			}
		}()
		timecache.VerifSetClock(time.Now().UnixNano())
		var ps storage.PeerStore
		var err error
		if kind == "redis" {
			mr, e := miniredis.Run()
			if e != nil {
				return "miniredis-failed"
			}
			_ = mr
			ps, err = redis.New(redis.Config{RedisBroker: "redis://@" + mr.Addr() + "/0", PeerLifetime: time.Duration(life), GarbageCollectionInterval: time.Duration(gci)})
		} else {
			ps, err = memory.New(memory.Config{ShardCount: 2, PeerLifetime: time.Duration(life), GarbageCollectionInterval: time.Duration(gci)})
		}
		if err != nil {
			return "new=err"
		}
		defer func() { <-ps.Stop() }()
		p := bittorrent.Peer{ID: bittorrent.PeerIDFromString("-VF0001-000000000001"), Port: 6881,
			IP: bittorrent.IP{IP: []byte{10, 0, 0, 1}, AddressFamily: bittorrent.IPv4}}
		ih := bittorrent.InfoHashFromString("01234567890123456789")
		timecache.VerifSetClock(time.Now().UnixNano())
		if err := ps.PutSeeder(ih, p); err != nil {
			return "put=err"
		}
		tickClock(time.Duration(gci)*5 + 50*time.Millisecond)
		kept := ps.ScrapeSwarm(ih, bittorrent.IPv4).Complete == 1
		if life > 0 && life < int64(time.Second) { // a lifetime this short: the peer must go, give the loop time under load
			for i := 0; i < 100 && kept; i++ {
				tickClock(30 * time.Millisecond)
				kept = ps.ScrapeSwarm(ih, bittorrent.IPv4).Complete == 1
			}
		}
		return "kept=" + b01(kept)
	}()
	c.Emit(op, obs)
}

// tickClock keeps the (pinned) cached clock at the wall time for d, as the global ticker would
func tickClock(d time.Duration) {
	for end := time.Now().Add(d); time.Now().Before(end); time.Sleep(5 * time.Millisecond) {
		timecache.VerifSetClock(time.Now().UnixNano())
	}
	timecache.VerifSetClock(time.Now().UnixNano())
}

// st.bg_loop: the store's own expiry loop measures a membership's age on the clock it was stamped with. The cached
// clock is pinned lag behind the wall clock (it is up to one refresh period behind in production), a peer announces,
// and the loop ticks a dozen times while that clock stands still: no time has passed for the tracker, the peer stays;
// it stays at half its lifetime and goes once the lifetime has passed on that clock.
func stBGLoop(c *Ctx, kind string, life, lag int64) {
	c0 := time.Now().UnixNano() - lag
	op := fmt.Sprintf("st.bg_loop kind=%s life=%d lag=%d c=%d", kind, life, lag, c0)
	c.Begin(op)
	obs := func() (o string) {
		defer func() {
			if p := recover(); p != nil {
				o = "PANIC " + strings.Fields(fmt.Sprint(p))[0]
			}
		}()
		timecache.VerifSetClock(c0)
		gci := 20 * time.Millisecond
		var ps storage.PeerStore
		var err error
		if kind == "redis" {
			mr, e := miniredis.Run()
			if e != nil {
				return "miniredis-failed"
			}
			defer mr.Close()
			ps, err = redis.New(redis.Config{RedisBroker: "redis://@" + mr.Addr() + "/0", PeerLifetime: time.Duration(life), GarbageCollectionInterval: gci})
		} else {
			ps, err = memory.New(memory.Config{ShardCount: 2, PeerLifetime: time.Duration(life), GarbageCollectionInterval: gci})
		}
		if err != nil {
			return "new=err"
		}
		defer func() { <-ps.Stop() }()
		p := bittorrent.Peer{ID: bittorrent.PeerIDFromString(strings.Repeat("\x01", 20)), Port: 6881,
			IP: bittorrent.IP{IP: []byte{10, 0, 0, 1}, AddressFamily: bittorrent.IPv4}}
		ih := bittorrent.InfoHashFromString(strings.Repeat("\x07", 20))
		if err := ps.PutSeeder(ih, p); err != nil {
			return "put=err"
		}
		kept := func() int { return int(ps.ScrapeSwarm(ih, bittorrent.IPv4).Complete) }
		time.Sleep(300 * time.Millisecond)
		frozen := kept()
		timecache.VerifSetClock(c0 + life/2)
		time.Sleep(150 * time.Millisecond)
		half := kept()
		timecache.VerifSetClock(c0 + life)
		full := kept()
		for i := 0; i < 150 && full != 0; i++ { // give the loop time under load
			time.Sleep(20 * time.Millisecond)
			full = kept()
		}
		return fmt.Sprintf("frozen_kept=%d half_kept=%d full_kept=%d", frozen, half, full)
	}()
	c.Emit(op, obs)
}

func replayC20(c *Ctx, op string, a map[string]string) {
	geti := func(k string) int64 { var v int64; fmt.Sscan(a[k], &v); return v }
	switch op {
	case "vi.check":
		replayC18(c, op, a)
	case "cfg.store_bg":
		var life, gci int64
		fmt.Sscan(a["life"], &life)
		fmt.Sscan(a["gci"], &gci)
		cfgStoreBG(c, a["kind"], life, gci)
	case "cfg.hooks":
		if a["list"] == "-" || a["list"] == "" {
			cfgHooks(c, nil)
		} else {
			cfgHooks(c, strings.Split(a["list"], ","))
		}
	case "cfg.validate":
		switch a["pkg"] {
		case "http":
			valHTTP(c, geti("ReadTimeout"), geti("WriteTimeout"), geti("IdleTimeout"), geti("MaxNumWant"), geti("DefaultNumWant"), geti("MaxScrapeInfoHashes"))
		case "udp":
			valUDP(c, a["PrivateKeyEmpty"] == "1", geti("MaxNumWant"), geti("DefaultNumWant"), geti("MaxScrapeInfoHashes"), geti("MaxClockSkew"))
		case "memory":
			valMem(c, geti("ShardCount"), geti("GarbageCollectionInterval"), geti("PrometheusReportingInterval"), geti("PeerLifetime"))
		case "redis":
			valRedis(c, a["RedisBrokerEmpty"] == "1", geti("RedisReadTimeout"), geti("RedisWriteTimeout"), geti("RedisConnectTimeout"), geti("GarbageCollectionInterval"), geti("PrometheusReportingInterval"), geti("PeerLifetime"))
		}
	case "cfg.new":
		cfgNew(c, a["kind"], string(unhx(a["name"])), a["known"] == "1")
	case "cfg.redisurl":
		cfgRedisURL(c, string(unhx(a["url"])))
	case "cfg.store_new":
		cfgStoreNew(c, a["kind"], geti("rt"), geti("wt"), geti("ct"), geti("shards"))
	}
}

func runC20(c *Ctx) {
	for _, l := range c.CorpusLines() {
		op, a := parseOp(l)
		replayC20(c, op, a)
	}
	r := c.R
	cfgFrontendAll(c)
	for _, db := range []int{0, 1, 7, 15} {
		cfgRedisConn(c, db)
	}
	// registries
	for _, n := range []string{"client approval", "torrent approval", "interval variation", "jwt"} {
		cfgNew(c, "hook", n, true)
	}
	for _, n := range []string{"", "nope", "Client Approval", "client approval ", "memory", "jwt2"} {
		cfgNew(c, "hook", n, false)
	}
	cfgNew(c, "store", "memory", true)
	// hook options outside their documented ranges are refused
	hookOptionTable(c, r)
	genHookLists(c, r, 60)
	for _, kind := range []string{"memory", "redis"} {
		for _, life := range []int64{0, -1, int64(time.Hour), int64(time.Millisecond)} {
			cfgStoreBG(c, kind, life, int64(30*time.Millisecond))
		}
	}
	for _, n := range []string{"", "nope", "Memory", "memory ", "client approval", "postgres"} {
		cfgNew(c, "store", n, false)
	}
	// Redis URLs
	for _, s := range []string{"redis://pw@127.0.0.1:6379/0", "redis://127.0.0.1:6379", "redis://127.0.0.1:6379/", "redis://127.0.0.1:6379/7", "redis://h/15/extra",
		"redis://h/-1", "redis://h/+3", "redis://h/x", "redis://h/9223372036854775807", "redis://h/9223372036854775808", "http://h/0", "rediss://h/0", "REDIS://h/1", "h:6379/0", "",
		"redis://", "redis:///3", "redis://h/%31", "redis://h/ 1", "redis://a:b@h:1/2", "://x", "redis://h/0x10", "redis://h//1", "redis:opaque", "redis://[::1]:6379/4", "redis://h:port/1", "%zz"} {
		cfgRedisURL(c, s)
	}
	// store constructors use the validated configuration
	cfgStoreNew(c, "redis", -5e9, -5e9, -5e9, 0)
	cfgStoreNew(c, "redis", 0, 0, 0, 0)
	cfgStoreNew(c, "redis", -1, 10e9, 10e9, 0)
	cfgStoreNew(c, "redis", 10e9, -1, 10e9, 0)
	cfgStoreNew(c, "redis", 10e9, 10e9, -1, 0)
	cfgStoreNew(c, "redis", 10e9, 10e9, 10e9, 0)
	for _, s := range []int64{-1, 0, 1, 3} {
		cfgStoreNew(c, "memory", 0, 0, 0, s)
	}
	// Validate: full boundary product for the small structs, random draws from the boundary sets for the rest
	for _, a := range u32Vals {
		for _, b := range u32Vals {
			for _, d := range u32Vals {
				valUDP(c, (a+b+d)%2 == 0, a, b, d, []int64{0, 10e9, -1, -10e9, -300e9, 1, math.MinInt64, math.MaxInt64}[int(uint64(a*7+b*3+d)%8)])
			}
		}
	}
	for _, sc := range intVals {
		for _, gc := range durVals {
			valMem(c, sc, gc, pick(r, durVals), pick(r, durVals))
			valMem(c, sc, pick(r, durVals), gc, pick(r, durVals))
			valMem(c, sc, pick(r, durVals), pick(r, durVals), gc)
		}
	}
	for i := 0; i < c.N; i++ {
		switch r.Intn(4) {
		case 0:
			valHTTP(c, pick(r, durVals), pick(r, durVals), pick(r, durVals), pick(r, u32Vals), pick(r, u32Vals), pick(r, u32Vals))
		case 1:
			valRedis(c, r.Bool(), pick(r, durVals), pick(r, durVals), pick(r, durVals), pick(r, durVals), pick(r, durVals), pick(r, durVals))
		case 2:
			valMem(c, int64(r.U64()), int64(r.U64()), int64(r.U64()), int64(r.U64()))
		case 3:
			valHTTP(c, int64(r.U64()), int64(r.U64()), int64(r.U64()), int64(uint32(r.U64())), int64(uint32(r.U64())), int64(uint32(r.U64())))
		}
	}
}

// cfg.frontend: what NewFrontend of either frontend does with a configuration it must refuse, and what it leaves
// behind: addr= "" | free | busy (a port another socket is listening on), https= likewise, routes=0/1,
// tls= none | good | cert-only | missing-file. A refusal must leave no listener of its own: when the HTTPS port is busy
// the HTTP port it has already bound must be free again. An accepted configuration serves and stops.
func cfgFrontend(c *Ctx, proto, addr, https, tlsKind string, routes bool) {
	op := fmt.Sprintf("cfg.frontend proto=%s addr=%s https=%s tls=%s routes=%s", proto, addr, https, tlsKind, b01(routes))
	c.Begin(op)
	obs := func() (o string) {
		defer func() {
			if p := recover(); p != nil {
				o = "PANIC " + strings.Fields(fmt.Sprint(p))[0]
			}
		}()
		ps, lg := newStoreLogic()
		defer func() { <-ps.Stop() }()
		var keep []io.Closer
		defer func() {
			for _, k := range keep {
				k.Close()
			}
		}()
		port := func(kind string) (string, int) {
			switch kind {
			case "free":
				p := freePort()
				return fmt.Sprintf("127.0.0.1:%d", p), p
			case "busy":
				if proto == "udp" {
					u, err := net.ListenUDP("udp", &net.UDPAddr{IP: net.IPv4(127, 0, 0, 1)})
					if err != nil {
						panic(err)
					}
					keep = append(keep, u)
					p := u.LocalAddr().(*net.UDPAddr).Port
					return fmt.Sprintf("127.0.0.1:%d", p), p
				}
				l, err := net.Listen("tcp", "127.0.0.1:0")
				if err != nil {
					panic(err)
				}
				keep = append(keep, l)
				p := l.Addr().(*net.TCPAddr).Port
				return fmt.Sprintf("127.0.0.1:%d", p), p
			}
			return "", 0
		}
		a, ap := port(addr)
		if proto == "udp" {
			fe, err := udpfe.NewFrontend(lg, udpfe.Config{Addr: a, PrivateKey: udpKey, MaxClockSkew: 10 * time.Second})
			if err != nil {
				return "refused"
			}
			stopped, _ := waitStop(fe.Stop(), 3*time.Second)
			return "built stopped=" + b01(stopped)
		}
		h, _ := port(https)
		cfg := httpfe.Config{Addr: a, HTTPSAddr: h, ReadTimeout: time.Second, WriteTimeout: time.Second}
		if routes {
			cfg.AnnounceRoutes, cfg.ScrapeRoutes = []string{"/announce"}, []string{"/scrape"}
		}
		switch tlsKind {
		case "good", "cert-only":
			cp, kp, dir := selfSigned()
			defer os.RemoveAll(dir)
			cfg.TLSCertPath = cp
			if tlsKind == "good" {
				cfg.TLSKeyPath = kp
			}
		case "missing-file":
			cfg.TLSCertPath, cfg.TLSKeyPath = "/nonexistent/verif-cert.pem", "/nonexistent/verif-key.pem"
		}
		fe, err := httpfe.NewFrontend(lg, cfg)
		if err != nil {
			released := "-"
			if addr == "free" {
				// the port it may have bound before giving up must be free again
				released = "0"
				for i := 0; i < 20; i++ {
					if l, e := net.Listen("tcp", fmt.Sprintf("127.0.0.1:%d", ap)); e == nil {
						l.Close()
						released = "1"
						break
					}
					time.Sleep(25 * time.Millisecond)
				}
			}
			return "refused http_port_released=" + released
		}
		stopped, _ := waitStop(fe.Stop(), 3*time.Second)
		return "built stopped=" + b01(stopped)
	}()
	c.Emit(op, obs)
}

// cfg.idle: the validated idle timeout governs keep-alive connections of BOTH servers of the HTTP frontend. Read
// timeout 300 ms, idle timeout 5 s, keep-alive on: a second request on the same connection after 1.2 s of silence is
// served (net/http falls back to the read timeout when a server has no idle timeout: the connection would be gone).
func cfgIdle(c *Ctx, proto string) {
	op := "cfg.idle proto=" + proto
	c.Begin(op)
	obs := func() (o string) {
		defer func() {
			if p := recover(); p != nil {
				o = "PANIC " + strings.Fields(fmt.Sprint(p))[0]
			}
		}()
		ps, lg := newStoreLogic()
		defer func() { <-ps.Stop() }()
		addr := fmt.Sprintf("127.0.0.1:%d", freePort())
		cfg := httpfe.Config{ReadTimeout: 300 * time.Millisecond, WriteTimeout: time.Second, IdleTimeout: 5 * time.Second, EnableKeepAlive: true,
			AnnounceRoutes: []string{"/announce"}, ScrapeRoutes: []string{"/scrape"}}
		if proto == "https" {
			cp, kp, dir := selfSigned()
			defer os.RemoveAll(dir)
			cfg.HTTPSAddr, cfg.TLSCertPath, cfg.TLSKeyPath = addr, cp, kp
		} else {
			cfg.Addr = addr
		}
		fe, err := httpfe.NewFrontend(lg, cfg)
		if err != nil {
			return "refused"
		}
		defer func() { waitStop(fe.Stop(), 3*time.Second) }()
		var conn net.Conn
		for i := 0; i < 100; i++ {
			if proto == "https" {
				conn, err = tls.Dial("tcp", addr, &tls.Config{InsecureSkipVerify: true})
			} else {
				conn, err = net.Dial("tcp", addr)
			}
			if err == nil {
				break
			}
			time.Sleep(20 * time.Millisecond)
		}
		if err != nil {
			return "no-connection"
		}
		defer conn.Close()
		br := bufio.NewReader(conn)
		ask := func() bool {
			_ = conn.SetDeadline(time.Now().Add(2 * time.Second))
			if _, err := conn.Write([]byte("GET /scrape?info_hash=aaaaaaaaaaaaaaaaaaaa HTTP/1.1\r\nHost: x\r\n\r\n")); err != nil {
				return false
			}
			resp, err := http.ReadResponse(br, nil)
			if err != nil {
				return false
			}
			_, _ = io.Copy(io.Discard, resp.Body)
			resp.Body.Close()
			return resp.StatusCode == 200
		}
		first := ask()
		time.Sleep(1200 * time.Millisecond)
		second := ask()
		return fmt.Sprintf("first=%s second_on_same_connection=%s", b01(first), b01(second))
	}()
	c.Emit(op, obs)
}

func cfgFrontendAll(c *Ctx) {
	cfgIdle(c, "http")
	cfgIdle(c, "https")
	for _, a := range []string{"-", "free", "busy"} {
		cfgFrontend(c, "udp", a, "-", "none", true)
		for _, h := range []string{"-", "free", "busy"} {
			for _, t := range []string{"none", "good", "cert-only", "missing-file"} {
				for _, r := range []bool{true, false} {
					cfgFrontend(c, "http", a, h, t, r)
				}
			}
		}
	}
}

// cfg.redis_conn: the store must actually use what parseRedisURL extracted: the database number and the password.
// A Redis that requires a password and a store pointed at database `db`: a seeder announced through the store is found
// by looking into the server directly — in that database and in no other; with a wrong or missing password every
// store operation fails (and nothing is stored).
func cfgRedisConn(c *Ctx, db int) {
	op := fmt.Sprintf("cfg.redis_conn db=%d", db)
	c.Begin(op)
	obs := func() (o string) {
		defer func() {
			if p := recover(); p != nil {
				o = "PANIC " + strings.Fields(fmt.Sprint(p))[0]
			}
		}()
		mr, err := miniredis.Run()
		if err != nil {
			return "miniredis-failed"
		}
		mr.RequireAuth("s3cret")
		timecache.VerifSetClock(time.Now().UnixNano())
		p := bittorrent.Peer{ID: bittorrent.PeerIDFromString("-VF0001-000000000001"), Port: 6881,
			IP: bittorrent.IP{IP: []byte{10, 0, 0, 1}, AddressFamily: bittorrent.IPv4}}
		ih := bittorrent.InfoHashFromString("01234567890123456789")
		try := func(broker string) string {
			ps, err := redis.New(redis.Config{RedisBroker: broker, PeerLifetime: time.Hour, GarbageCollectionInterval: time.Hour, PrometheusReportingInterval: time.Hour,
				RedisReadTimeout: 2 * time.Second, RedisWriteTimeout: 2 * time.Second, RedisConnectTimeout: 2 * time.Second})
			if err != nil {
				return "new-err"
			}
			defer func() { <-ps.Stop() }()
			if err := ps.PutSeeder(ih, p); err != nil {
				return "err"
			}
			return "ok"
		}
		where := func() string {
			var l []string
			for d := 0; d < 16; d++ {
				if len(mr.DB(d).Keys()) > 0 {
					l = append(l, strconv.Itoa(d))
				}
			}
			if len(l) == 0 {
				return "-"
			}
			return strings.Join(l, ",")
		}
		nopw := try(fmt.Sprintf("redis://@%s/%d", mr.Addr(), db))
		wrong := try(fmt.Sprintf("redis://wrong@%s/%d", mr.Addr(), db)) // the store's URL form is redis://[password@]host[/db]
		storedWithout := where()
		right := try(fmt.Sprintf("redis://s3cret@%s/%d", mr.Addr(), db))
		return fmt.Sprintf("no_password=%s wrong_password=%s stored_without_auth=%s right_password=%s stored_in_db=%s", nopw, wrong, storedWithout, right, where())
	}()
	c.Emit(op, obs)
}
