package main

// C14: real clientapproval / torrentapproval hooks on near-miss IDs and malformed configurations.

import (
	"context"
	"encoding/hex"
	"strings"

	"github.com/chihaya/chihaya/bittorrent"
	"github.com/chihaya/chihaya/middleware"
	"github.com/chihaya/chihaya/middleware/clientapproval"
	"github.com/chihaya/chihaya/middleware/torrentapproval"
)

func init() { gens["C14"] = &Gen{Run: runC14, Replay: replayC14} }

func hxList(l []string) string {
	if len(l) == 0 {
		return "-"
	}
	p := make([]string, len(l))
	for i, s := range l {
		p[i] = hx([]byte(s))
		if p[i] == "-" {
			p[i] = "" // an empty entry
		}
	}
	return strings.Join(p, ",")
}

func runHook(h middleware.Hook, err error, req *bittorrent.AnnounceRequest, scrape bool) string {
	if err != nil {
		return "refused"
	}
	var e error
	if scrape {
		_, e = h.HandleScrape(context.Background(), &bittorrent.ScrapeRequest{InfoHashes: []bittorrent.InfoHash{req.InfoHash}}, &bittorrent.ScrapeResponse{})
	} else {
		_, e = h.HandleAnnounce(context.Background(), req, &bittorrent.AnnounceResponse{})
	}
	if e != nil {
		return "reject"
	}
	return "accept"
}

func apprClient(c *Ctx, white, black []string, pid []byte, scrape bool) {
	if len(white) == 1 && white[0] == "" || len(black) == 1 && black[0] == "" {
		return // a single empty entry is not representable in the line protocol
	}
	h, err := clientapproval.NewHook(clientapproval.Config{Whitelist: white, Blacklist: black})
	req := &bittorrent.AnnounceRequest{Peer: bittorrent.Peer{ID: bittorrent.PeerIDFromBytes(pid)}}
	c.Emit("appr.client white="+hxList(white)+" black="+hxList(black)+" pid="+hx(pid)+" scrape="+b01(scrape), runHook(h, err, req, scrape))
}

func apprTorrent(c *Ctx, white, black []string, ih []byte, scrape bool) {
	if len(white) == 1 && white[0] == "" || len(black) == 1 && black[0] == "" {
		return
	}
	h, err := torrentapproval.NewHook(torrentapproval.Config{Whitelist: white, Blacklist: black})
	req := &bittorrent.AnnounceRequest{InfoHash: bittorrent.InfoHashFromBytes(ih)}
	c.Emit("appr.torrent white="+hxList(white)+" black="+hxList(black)+" ih="+hx(ih)+" scrape="+b01(scrape), runHook(h, err, req, scrape))
}

func splitList(s string) []string {
	if s == "-" || s == "" {
		return nil
	}
	var out []string
	for _, p := range strings.Split(s, ",") {
		out = append(out, string(unhx(p)))
	}
	return out
}

func replayC14(c *Ctx, op string, a map[string]string) {
	switch op {
	case "appr.client":
		apprClient(c, splitList(a["white"]), splitList(a["black"]), unhx(a["pid"]), a["scrape"] == "1")
	case "cfg.hooks":
		if a["list"] == "-" || a["list"] == "" {
			cfgHooks(c, nil)
		} else {
			cfgHooks(c, strings.Split(a["list"], ","))
		}
	case "appr.torrent":
		apprTorrent(c, splitList(a["white"]), splitList(a["black"]), unhx(a["ih"]), a["scrape"] == "1")
	}
}

func runC14(c *Ctx) {
	for _, l := range c.CorpusLines() {
		op, a := parseOp(l)
		replayC14(c, op, a)
	}
	r := c.R
	// hook lists as a configuration file gives them: the same hook may be listed twice with different options,
	// every entry is validated and applied on its own
	for _, l := range [][]string{{"ta:ok", "ta:badhex"}, {"ca:ok", "ca:badlen"}, {"ca:ok", "ca:both"}, {"ta:ok", "ta:both"}, {"ta:ok", "ta:ok"}, {"ca:ok", "ta:ok", "ca:badlen"}} {
		cfgHooks(c, l)
	}
	genHookLists(c, r, 20)
	alpha := "ABCDEFGHIJKLMNOPQRSTUVWXYZabcdef0123456789-~."
	genCID := func() string {
		b := make([]byte, 6)
		for i := range b {
			b[i] = alpha[r.Intn(len(alpha))]
		}
		if r.Intn(6) == 0 {
			b[r.Intn(6)] = '-'
		}
		if r.Intn(10) == 0 {
			copy(b, r.Bytes(6))
		}
		return string(b)
	}
	for i := 0; i < c.N; i++ {
		scrape := r.Intn(12) == 0
		if r.Bool() {
			// client approval
			n := r.Pick(0, 1, 1, 2, 3, 5)
			var list []string
			for j := 0; j < n; j++ {
				list = append(list, genCID())
			}
			if n > 0 && r.Intn(5) == 0 {
				list = append(list, list[0]) // duplicate
			}
			if r.Intn(10) == 0 && n > 0 {
				// malformed entry: wrong length
				k := r.Intn(len(list))
				switch r.Intn(3) {
				case 0:
					list[k] = list[k][:5]
				case 1:
					list[k] = list[k] + "x"
				case 2:
					list[k] = list[k] + list[k]
				}
			}
			var white, black []string
			switch r.Intn(8) {
			case 0:
				white, black = list, []string{genCID()}
				if len(list) == 0 {
					black = nil
				}
			case 1, 2, 3:
				black = list
			default:
				white = list
			}
			// peer id: near misses of a listed id
			pid := r.Bytes(20)
			if n > 0 && r.Intn(4) != 0 {
				id := list[r.Intn(len(list))]
				for len(id) < 6 {
					id += "x"
				}
				id = id[:6]
				switch r.Intn(6) {
				case 0:
					copy(pid, "-"+id) // listed, dash form
				case 1:
					copy(pid, id) // listed, plain form (if id[0] != '-')
				case 2:
					copy(pid, "x"+id) // shifted by one without dash
				case 3:
					copy(pid, "--"+id) // dash then dash
				case 4:
					copy(pid, "-"+id[:5]+"?") // last byte differs
				case 5:
					copy(pid[1:], id) // listed id at offset 1, random first byte
				}
			}
			apprClient(c, white, black, pid, scrape)
		} else {
			n := r.Pick(0, 1, 1, 2, 3, 5)
			var raw [][]byte
			var list []string
			for j := 0; j < n; j++ {
				b := r.Bytes(20)
				raw = append(raw, b)
				s := hex.EncodeToString(b)
				if r.Intn(3) == 0 {
					s = strings.ToUpper(s)
				}
				list = append(list, s)
			}
			if n > 0 && r.Intn(5) == 0 {
				list = append(list, strings.ToLower(list[0]))
			}
			if n > 0 && r.Intn(8) == 0 {
				k := r.Intn(n)
				switch r.Intn(9) {
				case 5:
					list[k] = list[k] + hex.EncodeToString(r.Bytes(12)) // 32 bytes (a SHA-256 sized entry)
				case 6:
					list[k] = list[k] + list[k] // 40 bytes
				case 7:
					list[k] = "" // empty entry
				case 8:
					list[k] = list[k][:2] // one byte
				case 0:
					list[k] = list[k][:39] // odd length
				case 1:
					list[k] = list[k][:38] // 19 bytes
				case 2:
					list[k] = list[k] + "00" // 21 bytes
				case 3:
					list[k] = "g" + list[k][1:] // not hex
				case 4:
					list[k] = string(raw[k]) // raw bytes instead of hex
				}
			}
			var white, black []string
			switch r.Intn(8) {
			case 0:
				white, black = list, []string{hex.EncodeToString(r.Bytes(20))}
				if len(list) == 0 {
					black = nil
				}
			case 1, 2, 3:
				black = list
			default:
				white = list
			}
			ih := r.Bytes(20)
			if n > 0 && r.Intn(3) != 0 {
				copy(ih, raw[r.Intn(n)])
				if r.Intn(3) == 0 {
					ih[r.Intn(20)] ^= 1 << uint(r.Intn(8)) // one bit off
				}
			}
			apprTorrent(c, white, black, ih, scrape)
		}
	}
}
