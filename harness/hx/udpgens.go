package main

// Generators of the UDP streams. All of them emit `udp.handle` operations.

import (
	"encoding/binary"
	"net"
	"strings"
	"time"
)

func init() {
	gens["C07"] = &Gen{Run: runC07, Replay: replayUDP}
	gens["C09"] = &Gen{Run: runC09, Replay: replayUDP}
	gens["C10"] = &Gen{Run: runC10, Replay: replayUDP}
	gens["C11U"] = &Gen{Run: runC11U, Replay: replayUDP}
}

func corpusUDP(c *Ctx) {
	for _, l := range c.CorpusLines() {
		op, a := parseOp(l)
		replayUDP(c, op, a)
	}
}

func randAnnounce(r *Rng, uc *udpCase) annFields {
	f := annFields{action: 1, tx: r.Bytes(4), ih: r.Bytes(20), pid: r.Bytes(20), dl: r.U64() >> uint(r.Intn(64)), left: r.U64() >> uint(r.Intn(64)),
		ul: r.U64() >> uint(r.Intn(64)), event: uint32(r.Intn(4)), key: uint32(r.U64()), numWant: uint32(r.Intn(200)), port: uint16(1 + r.Intn(65535))}
	if r.Intn(3) == 0 {
		f.left = 0
	}
	if r.Intn(6) == 0 {
		f.numWant = []uint32{0, 1, 99, 100, 101, 1<<32 - 1, 1 << 31}[r.Intn(7)]
	}
	if r.Intn(3) == 0 {
		f.action = 4
	}
	n := 4
	if f.action == 4 {
		n = 16
	}
	f.ipField = make([]byte, n)
	if r.Intn(3) == 0 {
		copy(f.ipField, r.Bytes(n))
	}
	f.connID = validConnID(*uc, time.Duration(r.Intn(100))*time.Second)
	return f
}

var udpURLData = []string{"", "/", "/announce", "/?a=b", "/announce?jwt=abc.def.ghi", "/?key=v&key=w&Key=x", "/?a=b%20c&d", "/?%zz=1", "?x=1;y=2", "/?info_hash=%01%02%03%04%05%06%07%08%09%0a%0b%0c%0d%0e%0f%10%11%12%13%14",
	"/?info_hash=short", "/?İp=1.2.3.4&ip=9.9.9.9", "/?" + strings.Repeat("k=", 200), "/" + strings.Repeat("p", 300) + "?long=" + strings.Repeat("v", 400)}

func runC07(c *Ctx) {
	corpusUDP(c)
	r := c.R
	// every packet length around each threshold, for each action, valid connection id
	for _, act := range []uint32{0, 1, 2, 3, 4, 5, 1 << 31} {
		for _, n := range []int{0, 1, 8, 15, 16, 17, 35, 36, 37, 55, 56, 57, 76, 97, 98, 99, 100, 109, 110, 111, 112, 116, 136} {
			uc := defaultUDPCase(r)
			p := make([]byte, n)
			copy(p, r.Bytes(n))
			cid := validConnID(uc, 5*time.Second)
			if act == 0 {
				cid = []byte{0, 0, 0x04, 0x17, 0x27, 0x10, 0x19, 0x80}
			}
			copy(p, cid)
			if n >= 12 {
				binary.BigEndian.PutUint32(p[8:12], act)
			}
			if n >= 84 && r.Bool() {
				binary.BigEndian.PutUint32(p[80:84], uint32(r.Intn(4)))
			}
			if n >= 98 {
				// make the tail harmless options most of the time
				for i := 98; i < n; i++ {
					if r.Intn(3) != 0 {
						p[i] = 1
					}
				}
			}
			uc.pkt = p
			udpHandle(c, uc)
			c.Kind("length")
		}
	}
	// event field: all 32 bits matter
	for _, ev := range []uint32{0, 1, 2, 3, 4, 5, 255, 256, 0x100, 0x10000, 0x1000000, 0x01000001, 1<<32 - 1} {
		uc := defaultUDPCase(r)
		f := randAnnounce(r, &uc)
		f.event = ev
		uc.pkt = f.build()
		udpHandle(c, uc)
		c.Kind("event")
	}
	// option area: every type byte, every length byte against the end of the packet
	for t := 0; t < 256; t += 1 {
		uc := defaultUDPCase(r)
		f := randAnnounce(r, &uc)
		f.options = []byte{byte(t), byte(r.Intn(4)), 'a', '=', 'b'}
		uc.pkt = f.build()
		uc.probes = []string{"a"}
		udpHandle(c, uc)
		c.Kind("opt-type")
	}
	for _, ln := range []int{0, 1, 2, 3, 4, 5, 6, 254, 255} {
		for _, avail := range []int{0, 1, 2, 3, 4, 5, 254, 255, 256} {
			uc := defaultUDPCase(r)
			f := randAnnounce(r, &uc)
			f.options = append([]byte{2, byte(ln)}, []byte(strings.Repeat("x", avail))...)
			if avail >= 3 {
				copy(f.options[2:], "/?x")
			}
			uc.pkt = f.build()
			udpHandle(c, uc)
			c.Kind("opt-len")
		}
	}
	{
		uc := defaultUDPCase(r)
		f := randAnnounce(r, &uc)
		f.options = []byte{2}
		uc.pkt = f.build()
		udpHandle(c, uc)
	}
	for i := 0; i < c.N; i++ {
		uc := defaultUDPCase(r)
		switch r.Intn(4) {
		case 0:
			uc.maxnw, uc.defnw = uint32(r.Intn(5)), uint32(r.Intn(5))
		case 1:
			uc.ms = uint32(r.Intn(4))
		}
		uc.spoof = r.Intn(4) == 0
		switch r.Intn(10) {
		case 0, 1, 2, 3: // well-formed announce with BEP 41 options
			f := randAnnounce(r, &uc)
			if r.Intn(2) == 0 {
				ud := udpURLData[r.Intn(len(udpURLData))]
				f.options = encodeOptions(r, ud)
				uc.probes = []string{"a", "key", "jwt", "d", "ip", "long", "x", "k"}
			}
			uc.pkt = f.build()
			udpHandle(c, uc)
			c.Kind("announce")
		case 4, 5: // scrape
			n := r.Pick(0, 1, 1, 2, 3, 49, 50, 51, 74)
			p := append(validConnID(uc, time.Second), 0, 0, 0, 2)
			p = append(p, r.Bytes(4)...)
			var ihs [][]byte
			for j := 0; j < n; j++ {
				ih := r.Bytes(20)
				if j > 0 && r.Intn(5) == 0 {
					ih = ihs[r.Intn(len(ihs))] // repeats
				}
				ihs = append(ihs, ih)
				p = append(p, ih...)
			}
			if r.Intn(6) == 0 {
				p = append(p, r.Bytes(1+r.Intn(19))...) // not a multiple of 20
			}
			uc.pkt = p
			udpHandle(c, uc)
			c.Kind("scrape")
		case 6, 7: // byte flip / truncation of a well-formed announce
			f := randAnnounce(r, &uc)
			if r.Bool() {
				f.options = encodeOptions(r, udpURLData[r.Intn(len(udpURLData))])
			}
			p := f.build()
			if r.Bool() {
				k := 8 + r.Intn(len(p)-8)
				p[k] ^= 1 << uint(r.Intn(8))
			} else {
				p = p[:16+r.Intn(len(p)-15)]
			}
			uc.pkt = p
			uc.probes = []string{"a", "key"}
			udpHandle(c, uc)
			c.Kind("mutated")
		case 8: // connect
			p := append([]byte{0, 0, 0x04, 0x17, 0x27, 0x10, 0x19, 0x80}, 0, 0, 0, 0)
			p = append(p, r.Bytes(4+r.Intn(3))...)
			if r.Intn(4) == 0 {
				p[r.Intn(8)] ^= 1 << uint(r.Intn(8))
			}
			uc.pkt = p
			udpHandle(c, uc)
			c.Kind("connect")
		case 9: // garbage with a valid connection id
			n := 16 + r.Intn(200)
			p := r.Bytes(n)
			copy(p, validConnID(uc, time.Second))
			if r.Bool() {
				binary.BigEndian.PutUint32(p[8:12], uint32(r.Intn(6)))
			}
			uc.pkt = p
			udpHandle(c, uc)
			c.Kind("garbage")
		}
	}
}

func runC09(c *Ctx) {
	corpusUDP(c)
	r := c.R
	for i := 0; i < c.N; i++ {
		uc := defaultUDPCase(r)
		uc.logic = []string{"ok", "ok", "ok", "ok", "client", "internal", "wrapped"}[r.Intn(7)]
		uc.interval = []int64{0, 1, 999999999, 1e9, 1800e9, 1801e9 + 5, (1 << 32) * 1e9, (1<<32 + 7) * 1e9, 1<<63 - 1}[r.Intn(9)]
		uc.complete, uc.incomp = uint32(r.U64()>>uint(r.Intn(33))), uint32(r.U64()>>uint(r.Intn(33)))
		uc.c0, uc.s0, uc.i0 = uint32(r.U64()>>uint(r.Intn(33))), uint32(r.U64()>>uint(r.Intn(33))), uint32(r.U64()>>uint(r.Intn(33)))
		uc.p4, uc.p6 = nil, nil
		// peer counts around every size a datagram limit could cut at (MTU 1500/1472/1280, 512, 64 KiB)
		for j := r.Pick(0, 1, 2, 5, 50, 100, 80, 81, 82, 200, 242, 243, 244, 300); j > 0; j-- {
			e := r.Bytes(6)
			if r.Intn(6) == 0 { // the same IPv4 address held in net.IP's 16-byte form
				e = append(append([]byte{0, 0, 0, 0, 0, 0, 0, 0, 0, 0, 0xff, 0xff}, e[:4]...), e[4:]...)
			}
			uc.p4 = append(uc.p4, e)
		}
		for j := r.Pick(0, 1, 2, 5, 50, 27, 28, 69, 70, 80, 81, 82, 100, 200); j > 0; j-- {
			uc.p6 = append(uc.p6, r.Bytes(18))
		}
		big := i%500 == 3
		if big { // a swarm and a max_numwant at and beyond what one datagram holds (65507 bytes: 10914 / 3638 entries)
			uc.logic = "ok"
			if i%1000 == 3 {
				uc.p4gen = r.Pick(10915, 12000) - len(uc.p4)
				uc.p6gen = r.Pick(3639, 5000) - len(uc.p6)
			} else {
				uc.p4gen, uc.p6gen = 10914-len(uc.p4), 3638-len(uc.p6)
			}
		}
		if big || r.Intn(3) != 0 {
			f := randAnnounce(r, &uc)
			uc.pkt = f.build()
			c.Kind("announce-" + uc.logic)
		} else {
			n := r.Pick(1, 1, 2, 3, 10, 50, 51)
			p := append(validConnID(uc, time.Second), 0, 0, 0, 2)
			p = append(p, r.Bytes(4)...)
			var ihs [][]byte
			for j := 0; j < n; j++ {
				ih := r.Bytes(20)
				if j > 0 && r.Intn(4) == 0 {
					ih = ihs[r.Intn(len(ihs))]
				}
				ihs = append(ihs, ih)
				p = append(p, ih...)
			}
			uc.pkt = p
			c.Kind("scrape-" + uc.logic)
		}
		udpHandle(c, uc)
	}
}

func runC10(c *Ctx) {
	clockStall(c, 500)
	corpusUDP(c)
	r := c.R
	srcs := []net.IP{{10, 1, 2, 3}, {10, 1, 2, 4}, net.ParseIP("2001:db8::7"), net.ParseIP("2001:db8::8"), net.ParseIP("::ffff:10.1.2.3")}
	for _, a := range nearMappedV6 {
		srcs = append(srcs, net.ParseIP(a))
	}
	body := func(uc *udpCase, act uint32, cid []byte) {
		var p []byte
		switch act {
		case 1, 4:
			f := randAnnounce(r, uc)
			f.action = act
			n := 4
			if act == 4 {
				n = 16
			}
			f.ipField = make([]byte, n)
			f.connID = cid
			p = f.build()
		case 2:
			p = append(append([]byte{}, cid...), 0, 0, 0, 2)
			p = append(p, r.Bytes(4)...)
			p = append(p, r.Bytes(20)...)
		default:
			p = append(append([]byte{}, cid...), 0, 0, 0, 0)
			binary.BigEndian.PutUint32(p[8:12], act)
			p = append(p, r.Bytes(4+r.Intn(40))...)
		}
		uc.pkt = p
	}
	acts := []uint32{1, 2, 4, 3, 5, 0}
	// window edges: age of the id relative to now, around both edges, with sub-second offsets
	for _, skew := range []int64{0, 1, 10e9, -5e9} {
		for _, ageS := range []int64{-11, -10, -9, -6, -5, -4, -1, 0, 1, 59, 119, 120, 121, 122, 600} {
			for _, sub := range []int64{0, 1, 999999999} {
				uc := defaultUDPCase(r)
				uc.skew = skew
				uc.src = srcs[0]
				nowS := uc.now / 1e9
				uc.now = nowS*1e9 + sub
				cid := append([]byte{}, udpfeNewID(uc.src, nowS-ageS)...)
				body(&uc, acts[r.Intn(3)], cid)
				udpHandle(c, uc)
				c.Kind("window")
			}
		}
	}
	// every single-bit flip of an issued id
	for bit := 0; bit < 64; bit++ {
		uc := defaultUDPCase(r)
		cid := validConnID(uc, 3*time.Second)
		cid[bit/8] ^= 1 << uint(bit%8)
		body(&uc, acts[r.Intn(3)], cid)
		udpHandle(c, uc)
		c.Kind("bitflip")
	}
	// sessions: what clients really do — ONE connection ID used for several requests in a row, with other clients'
	// connects and requests in between, all through the same frontend (pooled generators keep whatever they cache);
	// forged IDs assembled from the session's timestamp and the tag the tracker has just issued to someone else
	session := func() {
		base := defaultUDPCase(r)
		// configured clock skews, negative ones included: validation makes them zero (D30), an ID issued a moment ago is accepted
		base.skew = []int64{10e9, 10e9, 0, -10e9, -300e9}[r.Intn(5)]
		B := srcs[r.Intn(len(srcs))]
		C := srcs[r.Intn(len(srcs))]
		if ip4 := B.To4(); ip4 != nil && r.Intn(4) != 0 {
			B = ip4
		}
		if ip4 := C.To4(); ip4 != nil && r.Intn(4) != 0 {
			C = ip4
		}
		at := func(src net.IP) udpCase {
			uc := defaultUDPCase(r)
			uc.now, uc.skew, uc.src = base.now, base.skew, src
			return uc
		}
		ucB := at(B)
		cidB := validConnID(ucB, time.Duration(r.Intn(3))*time.Second)
		for k := 2 + r.Intn(6); k > 0; k-- {
			switch r.Intn(6) {
			case 0, 1: // B again, same ID
				uc := at(B)
				body(&uc, acts[r.Intn(3)], append([]byte{}, cidB...))
				udpHandle(c, uc)
				c.Kind("session-same-id")
			case 2: // somebody connects
				uc := at([]net.IP{B, C}[r.Intn(2)])
				uc.pkt = append(append([]byte{0, 0, 0x04, 0x17, 0x27, 0x10, 0x19, 0x80}, 0, 0, 0, 0), r.Bytes(4)...)
				udpHandle(c, uc)
				c.Kind("session-connect")
			case 3: // C uses B's ID
				uc := at(C)
				body(&uc, acts[r.Intn(3)], append([]byte{}, cidB...))
				udpHandle(c, uc)
				c.Kind("session-stolen-id")
			case 4: // B sends its timestamp with the tag issued to C just now (never issued to B)
				uc := at(B)
				forged := append(append([]byte{}, cidB[:4]...), validConnID(at(C), 0)[4:]...)
				body(&uc, acts[r.Intn(3)], forged)
				udpHandle(c, uc)
				c.Kind("session-forged-id")
			case 5: // C with its own fresh ID
				uc := at(C)
				body(&uc, acts[r.Intn(3)], validConnID(uc, 0))
				udpHandle(c, uc)
				c.Kind("session-other-client")
			}
		}
	}
	for i := 0; i < c.N; i++ {
		if i%12 == 5 {
			session()
		}
		uc := defaultUDPCase(r)
		uc.src = srcs[r.Intn(len(srcs))]
		if ip4 := uc.src.To4(); ip4 != nil && r.Intn(4) != 0 {
			uc.src = ip4
		}
		age := time.Duration(r.Intn(130)) * time.Second
		cid := validConnID(uc, age)
		switch r.Intn(8) {
		case 0: // issued to another address
			other := uc
			other.src = srcs[r.Intn(len(srcs))]
			cid = validConnID(other, age)
			c.Kind("other-ip")
		case 1: // issued under another key
			cid = append([]byte{}, udpfeNewIDKey(uc.src, uc.now/1e9-int64(age/time.Second), "another-key")...)
			c.Kind("other-key")
		case 2:
			cid = r.Bytes(8)
			c.Kind("random-id")
		case 3:
			cid[4+r.Intn(4)] ^= byte(1 + r.Intn(255))
			c.Kind("tag-damaged")
		case 4: // connect: the id the tracker issues must then be accepted (checked by the model through gtag)
			p := append([]byte{0, 0, 0x04, 0x17, 0x27, 0x10, 0x19, 0x80}, 0, 0, 0, 0)
			p = append(p, r.Bytes(4)...)
			uc.pkt = p
			udpHandle(c, uc)
			c.Kind("connect")
			continue
		default:
			c.Kind("issued")
		}
		body(&uc, acts[r.Intn(len(acts))], cid)
		udpHandle(c, uc)
	}
}

func runC11U(c *Ctx) {
	corpusUDP(c)
	r := c.R
	srcs := []net.IP{{10, 1, 2, 3}, net.ParseIP("2001:db8::7"), net.ParseIP("::ffff:10.1.2.3"), {0, 0, 0, 0}, net.ParseIP(nearMappedV6[0]), net.ParseIP(nearMappedV6[2])}
	f4 := [][]byte{{0, 0, 0, 0}, {9, 9, 9, 9}, {10, 1, 2, 3}, {255, 255, 255, 255}, {0, 0, 0, 1}}
	f16 := [][]byte{make([]byte, 16), net.ParseIP("2001:db8::99"), net.ParseIP("::ffff:9.9.9.9"), net.ParseIP("::1"), net.ParseIP("::ffff:0.0.0.0"), net.ParseIP(nearMappedV6[0]), net.ParseIP(nearMappedV6[1]), net.ParseIP(nearMappedV6[3])}
	for rep := 0; rep < 1+c.N/200; rep++ {
		for _, src := range srcs {
			for _, spoof := range []bool{false, true} {
				for _, act := range []uint32{1, 4} {
					fields := f4
					if act == 4 {
						fields = f16
					}
					for _, fld := range fields {
						uc := defaultUDPCase(r)
						uc.src, uc.spoof = src, spoof
						f := randAnnounce(r, &uc)
						f.action = act
						f.ipField = append([]byte{}, fld...)
						f.connID = validConnID(uc, time.Second)
						uc.pkt = f.build()
						udpHandle(c, uc)
						c.Kind("grid")
					}
				}
			}
		}
	}
}
