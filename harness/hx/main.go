// Command hx runs the real chihaya code on generated cases and writes, per case, the
// operation line (ops.txt, fed to the Lean model driver) and the implementation's
// observation (impl.txt). One line per case in both files, same order.
package main

import (
	"bufio"
	"encoding/hex"
	"flag"
	"fmt"
	"os"
	"path/filepath"
	"sort"
	"strconv"
	"strings"
	"sync"
	"sync/atomic"
	"time"
)

// Rng is splitmix64; every random choice of a run derives from one seed.
type Rng struct{ s uint64 }

func (r *Rng) U64() uint64 {
	r.s += 0x9e3779b97f4a7c15
	z := r.s
	z = (z ^ (z >> 30)) * 0xbf58476d1ce4e5b9
	z = (z ^ (z >> 27)) * 0x94d049bb133111eb
	return z ^ (z >> 31)
}
func (r *Rng) Intn(n int) int {
	if n <= 0 {
		return 0
	}
	return int(r.U64() % uint64(n))
}
func (r *Rng) Bool() bool        { return r.U64()&1 == 1 }
func (r *Rng) Chance(p int) bool { return r.Intn(100) < p }
func (r *Rng) Bytes(n int) []byte {
	b := make([]byte, n)
	for i := range b {
		b[i] = byte(r.U64())
	}
	return b
}
func (r *Rng) Pick(xs ...int) int { return xs[r.Intn(len(xs))] }
func (r *Rng) Fork() *Rng         { return &Rng{s: r.U64()} }

// Ctx is handed to every generator.
type Ctx struct {
	R        *Rng
	N        int    // requested number of random cases
	Tier     string // quick | thorough
	Corpus   string // directory with corpus files for this property (may not exist)
	ops      *bufio.Writer
	impl     *bufio.Writer
	Count    int
	Kinds    map[string]int       // distribution statistics
	emitHook func(op, obs string) // when set, Emit hands the case to the hook instead of writing it
	mu       sync.Mutex
	lastEmit int64        // unix ns of the last progress (atomic)
	pending  atomic.Value // op line announced by Begin and not emitted yet
	pendF    *os.File     // the same, on disk: survives a crash of the process (read by ./check)
}

// notePending keeps pending.txt current: "<length>\n<op>"; length 0 = nothing in flight.
func (c *Ctx) notePending(op string) {
	if c.pendF == nil {
		return
	}
	_, _ = c.pendF.WriteAt([]byte(fmt.Sprintf("%-10d\n%s", len(op), op)), 0)
}

// Begin announces the case about to be executed, so that the watchdog can name it if it never returns.
func (c *Ctx) Begin(op string) {
	atomic.StoreInt64(&c.lastEmit, time.Now().UnixNano())
	c.pending.Store(op)
	if c.emitHook == nil {
		// everything emitted so far reaches the disk before the case runs: a panic on a goroutine the harness does
		// not own kills the process, and ./check then reports this case with the cases before it intact
		c.mu.Lock()
		c.ops.Flush()
		c.impl.Flush()
		c.mu.Unlock()
		c.notePending(op)
	}
}

// Touch tells the watchdog that the case in flight is making progress (scenarios that run thousands of bounded
// iterations as ONE case: every iteration has its own time-out, so progress is what has to be shown, not an emission).
func (c *Ctx) Touch() { atomic.StoreInt64(&c.lastEmit, time.Now().UnixNano()) }

// watchdog: when nothing was emitted for limit, the implementation is wedged (a request that never
// returns): the case in flight is written with the observation WEDGED and the run ends there.
func (c *Ctx) watchdog(limit time.Duration, finish func()) {
	for {
		time.Sleep(time.Second)
		last := atomic.LoadInt64(&c.lastEmit)
		if last == 0 || time.Since(time.Unix(0, last)) < limit {
			continue
		}
		c.mu.Lock()
		op, _ := c.pending.Load().(string)
		if op == "" {
			op = "-"
		}
		fmt.Fprintln(c.ops, "wedge.detected pending="+hex.EncodeToString([]byte(op)))
		fmt.Fprintln(c.impl, "WEDGED")
		c.Kinds["wedged"]++
		finish()
		os.Exit(0)
	}
}

// Emit records one case: the op line for the model and what the implementation did.
func (c *Ctx) Emit(op, obs string) {
	if c.emitHook != nil {
		c.emitHook(op, obs)
		return
	}
	if strings.ContainsAny(op, "\n\r") || strings.ContainsAny(obs, "\n\r") {
		panic("newline in line protocol")
	}
	c.mu.Lock()
	fmt.Fprintln(c.ops, op)
	fmt.Fprintln(c.impl, obs)
	c.Count++
	c.mu.Unlock()
	atomic.StoreInt64(&c.lastEmit, time.Now().UnixNano())
	if p, _ := c.pending.Load().(string); p != "" {
		c.pending.Store("")
		c.notePending("")
	}
}
func (c *Ctx) Kind(k string) { c.Kinds[k]++ }

// CorpusLines returns op lines of all *.ops files of the property's corpus (run first).
func (c *Ctx) CorpusLines() []string {
	var out []string
	files, _ := filepath.Glob(filepath.Join(c.Corpus, "*.ops"))
	sort.Strings(files)
	for _, f := range files {
		b, err := os.ReadFile(f)
		if err != nil {
			continue
		}
		for _, l := range strings.Split(string(b), "\n") {
			l = strings.TrimSpace(l)
			if l != "" && !strings.HasPrefix(l, "#") {
				out = append(out, l)
			}
		}
	}
	return out
}

func hx(b []byte) string {
	if len(b) == 0 {
		return "-"
	}
	return hex.EncodeToString(b)
}
func unhx(s string) []byte {
	if s == "-" || s == "" {
		return nil
	}
	b, err := hex.DecodeString(s)
	if err != nil {
		panic("bad hex in op line: " + s)
	}
	return b
}
func b01(b bool) string {
	if b {
		return "1"
	}
	return "0"
}

// parseOp splits "mod.op k=v k=v" (used for corpus / replay lines).
func parseOp(line string) (string, map[string]string) {
	fs := strings.Fields(line)
	m := map[string]string{}
	for _, f := range fs[1:] {
		if i := strings.IndexByte(f, '='); i >= 0 {
			m[f[:i]] = f[i+1:]
		} else {
			m[f] = ""
		}
	}
	return fs[0], m
}

type Gen struct {
	Run    func(c *Ctx)                                 // generate + execute cases
	Replay func(c *Ctx, op string, a map[string]string) // execute one given op line
}

var gens = map[string]*Gen{}

func main() {
	prop := flag.String("prop", "", "stream id, e.g. C19")
	seed := flag.Uint64("seed", 1, "seed")
	n := flag.Int("n", 1000, "number of random cases")
	tier := flag.String("tier", "quick", "quick|thorough")
	out := flag.String("out", ".", "output directory")
	corpus := flag.String("corpus", "", "corpus directory")
	replay := flag.String("replay", "", "file with op lines to execute instead of generating")
	flag.Parse()
	g, ok := gens[*prop]
	if !ok {
		fmt.Fprintln(os.Stderr, "unknown stream", *prop)
		os.Exit(2)
	}
	of, err := os.Create(filepath.Join(*out, "ops.txt"))
	if err != nil {
		panic(err)
	}
	inf, err := os.Create(filepath.Join(*out, "impl.txt"))
	if err != nil {
		panic(err)
	}
	c := &Ctx{R: &Rng{s: *seed*0x9e3779b97f4a7c15 + 0x1234567}, N: *n, Tier: *tier, Corpus: *corpus,
		ops: bufio.NewWriterSize(of, 1<<20), impl: bufio.NewWriterSize(inf, 1<<20), Kinds: map[string]int{}}
	c.pendF, _ = os.Create(filepath.Join(*out, "pending.txt"))
	finish := func() {
		c.ops.Flush()
		c.impl.Flush()
		of.Close()
		inf.Close()
		var ks []string
		for k := range c.Kinds {
			ks = append(ks, k)
		}
		sort.Strings(ks)
		sf, _ := os.Create(filepath.Join(*out, "stats.txt"))
		for _, k := range ks {
			fmt.Fprintf(sf, "%s %d\n", k, c.Kinds[k])
		}
		sf.Close()
	}
	limit := 60 * time.Second
	if v, err := strconv.Atoi(os.Getenv("VERIF_WEDGE_S")); err == nil && v > 0 {
		limit = time.Duration(v) * time.Second
	}
	atomic.StoreInt64(&c.lastEmit, time.Now().UnixNano())
	go c.watchdog(limit, finish)
	if *replay != "" {
		b, err := os.ReadFile(*replay)
		if err != nil {
			panic(err)
		}
		for _, l := range strings.Split(string(b), "\n") {
			l = strings.TrimSpace(l)
			if l == "" || strings.HasPrefix(l, "#") {
				continue
			}
			op, a := parseOp(l)
			g.Replay(c, op, a)
		}
	} else {
		g.Run(c)
	}
	c.mu.Lock()
	finish()
}
