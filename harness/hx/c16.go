package main

// C16: stop groups, frontend life-cycles and reload against the real code.

import (
	"bytes"
	"context"
	"crypto/ecdsa"
	"crypto/elliptic"
	crand "crypto/rand"
	"crypto/rsa"
	"crypto/tls"
	"crypto/x509"
	"crypto/x509/pkix"
	"encoding/binary"
	"encoding/pem"
	"errors"
	"fmt"
	"github.com/alicebob/miniredis"
	"github.com/chihaya/chihaya/pkg/metrics"
	"github.com/chihaya/chihaya/pkg/timecache"
	redisstore "github.com/chihaya/chihaya/storage/redis"
	"math/big"
	"net"
	"net/http"
	"os"
	"path/filepath"
	"runtime"
	"strconv"
	"strings"
	"sync"
	"sync/atomic"
	"time"

	"github.com/chihaya/chihaya/bittorrent"
	"github.com/chihaya/chihaya/frontend"
	httpfe "github.com/chihaya/chihaya/frontend/http"
	udpfe "github.com/chihaya/chihaya/frontend/udp"
	"github.com/chihaya/chihaya/middleware"
	"github.com/chihaya/chihaya/pkg/stop"
	"github.com/chihaya/chihaya/storage"
	"github.com/chihaya/chihaya/storage/memory"
)

func init() { gens["C16"] = &Gen{Run: runC16, Replay: replayC16} }

// ---- stop.Group -------------------------------------------------------------------------------

// grp.stop members=<spec,...>: spec = n<k> (returns k errors after a delay), a (AlreadyStopped), z (Done() with no error)
func grpStop(c *Ctx, spec string) {
	op := "grp.stop members=" + spec
	obs := func() (o string) {
		defer func() {
			if p := recover(); p != nil {
				o = "PANIC"
			}
		}()
		g := stop.NewGroup()
		var calls []int32
		ms := strings.Split(spec, ",")
		if spec == "-" {
			ms = nil
		}
		calls = make([]int32, len(ms))
		for i, m := range ms {
			i, m := i, m
			g.AddFunc(func() stop.Result {
				atomic.AddInt32(&calls[i], 1)
				if m == "a" {
					return stop.AlreadyStopped
				}
				ch := make(stop.Channel)
				go func() {
					time.Sleep(time.Duration((i*37)%5) * 100 * time.Microsecond)
					k := 0
					if m[0] == 'n' {
						k, _ = strconv.Atoi(m[1:])
					}
					var errs []error
					for j := 0; j < k; j++ {
						errs = append(errs, fmt.Errorf("m%d.e%d", i, j))
					}
					ch.Done(errs...)
				}()
				return ch.Result()
			})
		}
		done := make(chan []error, 1)
		go func() { done <- g.Stop().Wait() }()
		select {
		case errs := <-done:
			var l []string
			for _, e := range errs {
				l = append(l, e.Error())
			}
			for i := range calls {
				if atomic.LoadInt32(&calls[i]) != 1 {
					return fmt.Sprintf("member %d called %d times", i, calls[i])
				}
			}
			if len(l) == 0 {
				return "errs=-"
			}
			return "errs=" + strings.Join(l, ",")
		case <-time.After(5 * time.Second):
			return "STOP-DID-NOT-COMPLETE"
		}
	}()
	c.Emit(op, obs)
}

// life.store_stop: the memory store's Stop waits for its own expiry pass: with a pass parked on a shard lock, Stop
// stays pending; once the lock is released it completes.
func lifeStoreStop(c *Ctx) {
	op := "life.store_stop kind=memory"
	c.Begin(op)
	obs := func() (o string) {
		defer func() {
			if p := recover(); p != nil {
				o = "PANIC " + strings.Fields(fmt.Sprint(p))[0]
			}
		}()
		timecache.VerifSetClock(time.Now().UnixNano())
		g0 := goroutinesOf("chihaya/storage/memory.")
		ps, err := memory.New(memory.Config{ShardCount: 1, PeerLifetime: time.Hour, GarbageCollectionInterval: 20 * time.Millisecond, PrometheusReportingInterval: time.Hour})
		if err != nil {
			return "new-failed"
		}
		p := bittorrent.Peer{ID: bittorrent.PeerIDFromString("-VF0001-000000000001"), Port: 6881, IP: bittorrent.IP{IP: []byte{10, 0, 0, 1}, AddressFamily: bittorrent.IPv4}}
		_ = ps.PutSeeder(bittorrent.InfoHashFromString("01234567890123456789"), p)
		release := memory.VerifHoldShard(ps, 0)
		time.Sleep(300 * time.Millisecond) // an expiry pass has started and is parked on the shard lock
		res := ps.Stop()
		early, _ := waitStop(res, 200*time.Millisecond)
		release()
		done, _ := waitStop(res, 3*time.Second)
		left := goroutinesLeft("chihaya/storage/memory.", g0)
		return fmt.Sprintf("stop_pending_while_pass_parked=%s stopped=%s goroutines_left=%d", b01(!early), b01(early || done), left)
	}()
	c.Emit(op, obs)
}

// life.logic_stop: middleware.Logic.Stop stops exactly the hooks (pre and post) that implement stop.Stopper and
// reports every error of every one of them. members: p = a plain hook, n<k> = a stoppable hook reporting k
// errors, a = a stoppable hook that is already stopped; the first `npre` of them are pre-hooks.
type plainHook struct{}

func (plainHook) HandleAnnounce(ctx context.Context, _ *bittorrent.AnnounceRequest, _ *bittorrent.AnnounceResponse) (context.Context, error) {
	return ctx, nil
}
func (plainHook) HandleScrape(ctx context.Context, _ *bittorrent.ScrapeRequest, _ *bittorrent.ScrapeResponse) (context.Context, error) {
	return ctx, nil
}

type stoppableHook struct {
	plainHook
	idx   int
	spec  string
	calls *int32
}

func (h *stoppableHook) Stop() stop.Result {
	atomic.AddInt32(h.calls, 1)
	if h.spec == "a" {
		return stop.AlreadyStopped
	}
	ch := make(stop.Channel)
	go func() {
		time.Sleep(time.Duration((h.idx*37)%5) * 100 * time.Microsecond)
		k, _ := strconv.Atoi(h.spec[1:])
		var errs []error
		for j := 0; j < k; j++ {
			errs = append(errs, fmt.Errorf("m%d.e%d", h.idx, j))
		}
		ch.Done(errs...)
	}()
	return ch.Result()
}

func logicStop(c *Ctx, spec string, npre int) {
	op := fmt.Sprintf("life.logic_stop members=%s npre=%d", spec, npre)
	obs := func() (o string) {
		defer func() {
			if p := recover(); p != nil {
				o = "PANIC"
			}
		}()
		ms := strings.Split(spec, ",")
		if spec == "-" {
			ms = nil
		}
		calls := make([]int32, len(ms))
		var pre, post []middleware.Hook
		for i, m := range ms {
			var h middleware.Hook = plainHook{}
			if m != "p" {
				h = &stoppableHook{idx: i, spec: m, calls: &calls[i]}
			}
			if i < npre {
				pre = append(pre, h)
			} else {
				post = append(post, h)
			}
		}
		ps, _ := newStoreLogic()
		defer func() { <-ps.Stop() }()
		lg := middleware.NewLogic(middleware.ResponseConfig{AnnounceInterval: time.Minute, MinAnnounceInterval: time.Minute}, ps, pre, post)
		done := make(chan []error, 1)
		go func() { done <- lg.Stop().Wait() }()
		select {
		case errs := <-done:
			var l []string
			for _, e := range errs {
				l = append(l, e.Error())
			}
			for i, m := range ms {
				want := int32(1)
				if m == "p" {
					want = 0
				}
				if atomic.LoadInt32(&calls[i]) != want {
					return fmt.Sprintf("member %d stopped %d times", i, calls[i])
				}
			}
			if len(l) == 0 {
				return "errs=-"
			}
			return "errs=" + strings.Join(l, ",")
		case <-time.After(5 * time.Second):
			return "STOP-DID-NOT-COMPLETE"
		}
	}()
	c.Emit(op, obs)
}

// ---- frontends --------------------------------------------------------------------------------

// gateLogic: a TrackerLogic over a real store whose post-response hook blocks until released.
type gateLogic struct {
	inner    frontend.TrackerLogic
	gate     chan struct{}
	inAfter  int32
	afterEnd int32
	panicked int32
}

func (g *gateLogic) HandleAnnounce(ctx context.Context, req *bittorrent.AnnounceRequest) (context.Context, *bittorrent.AnnounceResponse, error) {
	return g.inner.HandleAnnounce(ctx, req)
}
func (g *gateLogic) AfterAnnounce(ctx context.Context, req *bittorrent.AnnounceRequest, resp *bittorrent.AnnounceResponse) {
	atomic.AddInt32(&g.inAfter, 1)
	<-g.gate
	func() {
		defer func() {
			if p := recover(); p != nil {
				atomic.AddInt32(&g.panicked, 1) // e.g. "attempted to interact with stopped memory store"
			}
		}()
		g.inner.AfterAnnounce(ctx, req, resp)
	}()
	atomic.AddInt32(&g.afterEnd, 1)
}
func (g *gateLogic) HandleScrape(ctx context.Context, req *bittorrent.ScrapeRequest) (context.Context, *bittorrent.ScrapeResponse, error) {
	return g.inner.HandleScrape(ctx, req)
}
func (g *gateLogic) AfterScrape(ctx context.Context, req *bittorrent.ScrapeRequest, resp *bittorrent.ScrapeResponse) {
	// the scrape's post-response hooks are gated like the announce's: Stop has to wait for them too
	atomic.AddInt32(&g.inAfter, 1)
	<-g.gate
	func() {
		defer func() {
			if p := recover(); p != nil {
				atomic.AddInt32(&g.panicked, 1)
			}
		}()
		g.inner.AfterScrape(ctx, req, resp)
	}()
	atomic.AddInt32(&g.afterEnd, 1)
}

func freePort() int {
	l, err := net.Listen("tcp", "127.0.0.1:0")
	if err != nil {
		panic(err)
	}
	defer l.Close()
	return l.Addr().(*net.TCPAddr).Port
}

func waitStop(r stop.Result, d time.Duration) (bool, []error) {
	done := make(chan []error, 1)
	go func() { done <- r.Wait() }()
	select {
	case e := <-done:
		return true, e
	case <-time.After(d):
		return false, nil
	}
}

func newStoreLogic() (storage.PeerStore, *middleware.Logic) {
	ps, err := memory.New(memory.Config{ShardCount: 2, GarbageCollectionInterval: time.Hour, PrometheusReportingInterval: time.Hour, PeerLifetime: time.Hour})
	if err != nil {
		panic(err)
	}
	return ps, middleware.NewLogic(middleware.ResponseConfig{AnnounceInterval: 30 * time.Minute, MinAnnounceInterval: 15 * time.Minute}, ps, nil, nil)
}

// life.http scenario=<immediate|gated|traffic> : observations of the real HTTP frontend
func lifeHTTP(c *Ctx, scenario string, delayUs int) { lifeHTTPL(c, scenario, delayUs, "http") }

// selfSigned writes a throw-away certificate and key and returns their paths (and the directory to remove)
func selfSigned() (string, string, string) {
	dir, err := os.MkdirTemp("", "verif-tls-")
	if err != nil {
		panic(err)
	}
	key, _ := ecdsa.GenerateKey(elliptic.P256(), crand.Reader)
	tpl := &x509.Certificate{SerialNumber: big.NewInt(1), Subject: pkix.Name{CommonName: "127.0.0.1"}, NotBefore: time.Now().Add(-time.Hour), NotAfter: time.Now().Add(time.Hour),
		IPAddresses: []net.IP{net.IPv4(127, 0, 0, 1)}, KeyUsage: x509.KeyUsageDigitalSignature, ExtKeyUsage: []x509.ExtKeyUsage{x509.ExtKeyUsageServerAuth}}
	der, err := x509.CreateCertificate(crand.Reader, tpl, tpl, &key.PublicKey, key)
	if err != nil {
		panic(err)
	}
	kb, _ := x509.MarshalECPrivateKey(key)
	cp, kp := filepath.Join(dir, "cert.pem"), filepath.Join(dir, "key.pem")
	_ = os.WriteFile(cp, pem.EncodeToMemory(&pem.Block{Type: "CERTIFICATE", Bytes: der}), 0o600)
	_ = os.WriteFile(kp, pem.EncodeToMemory(&pem.Block{Type: "EC PRIVATE KEY", Bytes: kb}), 0o600)
	return cp, kp, dir
}

// listeners = http | https | both: which of addr / https_addr the frontend is configured with
func lifeHTTPL(c *Ctx, scenario string, delayUs int, listeners string) {
	op := fmt.Sprintf("life.http scenario=%s delay=%d listeners=%s", scenario, delayUs, listeners)
	c.Begin(op)
	obs := func() (o string) {
		defer func() {
			if p := recover(); p != nil {
				o = "PANIC " + strings.Fields(fmt.Sprint(p))[0]
			}
		}()
		g0 := goroutinesOf("chihaya/frontend/http.")
		ps, lg := newStoreLogic()
		storeStopped := false
		stopStore := func() {
			if !storeStopped {
				storeStopped = true
				<-ps.Stop()
			}
		}
		defer stopStore()
		gl := &gateLogic{inner: lg, gate: make(chan struct{})}
		if scenario == "traffic" {
			close(gl.gate) // post-response hooks run freely
		}
		port := freePort()
		addr := fmt.Sprintf("127.0.0.1:%d", port)
		cfg := httpfe.Config{Addr: addr, AnnounceRoutes: []string{"/announce"}, ScrapeRoutes: []string{"/scrape"}, ReadTimeout: time.Second, WriteTimeout: time.Second}
		addrs := []string{addr}
		if listeners != "http" {
			cp, kp, dir := selfSigned()
			defer os.RemoveAll(dir)
			cfg.TLSCertPath, cfg.TLSKeyPath = cp, kp
			cfg.HTTPSAddr = fmt.Sprintf("127.0.0.1:%d", freePort())
			addrs = append(addrs, cfg.HTTPSAddr)
			if listeners == "https" {
				cfg.Addr, addrs = "", addrs[1:]
			}
		}
		fe, err := httpfe.NewFrontend(gl, cfg)
		if err != nil {
			return "new-failed"
		}
		if delayUs > 0 {
			time.Sleep(time.Duration(delayUs) * time.Microsecond)
		}
		served := 0
		if scenario != "immediate" {
			// wait until it serves, then announce once
			url := "http://" + addr + "/announce?info_hash=aaaaaaaaaaaaaaaaaaaa&peer_id=bbbbbbbbbbbbbbbbbbbb&port=6881&left=5&downloaded=0&uploaded=0"
			if scenario == "gated-scrape" {
				url = "http://" + addr + "/scrape?info_hash=aaaaaaaaaaaaaaaaaaaa"
			}
			if listeners == "https" {
				url = "https://" + addrs[0] + "/announce?info_hash=aaaaaaaaaaaaaaaaaaaa&peer_id=bbbbbbbbbbbbbbbbbbbb&port=6881&left=5&downloaded=0&uploaded=0"
			}
			cl := &http.Client{Timeout: 2 * time.Second, Transport: &http.Transport{DisableKeepAlives: true, TLSClientConfig: &tls.Config{InsecureSkipVerify: true}}}
			for i := 0; i < 200; i++ {
				resp, err := cl.Get(url)
				if err == nil {
					resp.Body.Close()
					served++
					break
				}
				time.Sleep(2 * time.Millisecond)
			}
			// wait for the post-hook to be entered
			for i := 0; i < 500 && atomic.LoadInt32(&gl.inAfter) == 0; i++ {
				time.Sleep(time.Millisecond)
			}
		}
		res := fe.Stop()
		early, errs := waitStop(res, 150*time.Millisecond)
		stoppedWhileGated := early && strings.HasPrefix(scenario, "gated") && atomic.LoadInt32(&gl.inAfter) > atomic.LoadInt32(&gl.afterEnd)
		left := -1
		if early {
			left = goroutinesLeft("chihaya/frontend/http.", g0) // Stop has completed: nothing of the frontend runs any more
			stopStore()                                         // as cmd/chihaya does once the frontends (and the logic) have stopped
		}
		if scenario != "traffic" {
			close(gl.gate)
		}
		if !early {
			ok, e := waitStop(res, 5*time.Second)
			if !ok {
				return "STOP-DID-NOT-COMPLETE"
			}
			errs = e
			left = goroutinesLeft("chihaya/frontend/http.", g0)
			stopStore()
		}
		for i := 0; i < 1000 && atomic.LoadInt32(&gl.afterEnd) < atomic.LoadInt32(&gl.inAfter); i++ {
			time.Sleep(time.Millisecond)
		}
		usedStopped := atomic.LoadInt32(&gl.panicked) > 0
		// once Stop has completed: the listener must be closed and nothing may still be running
		listening := false
		for _, a := range addrs {
			if conn, err := net.DialTimeout("tcp", a, 200*time.Millisecond); err == nil {
				conn.Close()
				listening = true
			}
		}
		return fmt.Sprintf("stopped=1 errs=%d listening=%s stop_returned_while_posthook_running=%s served=%d store_used_after_stop=%s goroutines_left=%d", len(errs), b01(listening), b01(stoppedWhileGated), served, b01(usedStopped), left)
	}()
	c.Emit(op, obs)
}

func udpAnnouncePacket(connID []byte) []byte {
	f := annFields{connID: connID, action: 1, tx: []byte{1, 2, 3, 4}, ih: []byte("aaaaaaaaaaaaaaaaaaaa"), pid: []byte("bbbbbbbbbbbbbbbbbbbb"), left: 5, ipField: make([]byte, 4), numWant: 10, port: 6881}
	return f.build()
}

func lifeUDP(c *Ctx, scenario string, delayUs int) {
	op := fmt.Sprintf("life.udp scenario=%s delay=%d", scenario, delayUs)
	obs := func() (o string) {
		defer func() {
			if p := recover(); p != nil {
				o = "PANIC " + strings.Fields(fmt.Sprint(p))[0]
			}
		}()
		g0 := goroutinesOf("chihaya/frontend/udp.")
		ps, lg := newStoreLogic()
		storeStopped := false
		stopStore := func() {
			if !storeStopped {
				storeStopped = true
				<-ps.Stop()
			}
		}
		defer stopStore()
		gl := &gateLogic{inner: lg, gate: make(chan struct{})}
		if scenario == "traffic" {
			close(gl.gate) // post-response hooks run freely
		}
		// find a free UDP port
		pc, err := net.ListenUDP("udp", &net.UDPAddr{IP: net.IPv4(127, 0, 0, 1)})
		if err != nil {
			return "no-port"
		}
		port := pc.LocalAddr().(*net.UDPAddr).Port
		pc.Close()
		addr := fmt.Sprintf("127.0.0.1:%d", port)
		fe, err := udpfe.NewFrontend(gl, udpfe.Config{Addr: addr, PrivateKey: udpKey, MaxClockSkew: 10 * time.Second})
		if err != nil {
			return "new-failed"
		}
		if delayUs > 0 {
			time.Sleep(time.Duration(delayUs) * time.Microsecond)
		}
		served := 0
		cl, _ := net.DialUDP("udp", nil, &net.UDPAddr{IP: net.IPv4(127, 0, 0, 1), Port: port})
		defer cl.Close()
		if scenario != "immediate" {
			// connect, then announce with the issued id
			req := append([]byte{0, 0, 0x04, 0x17, 0x27, 0x10, 0x19, 0x80, 0, 0, 0, 0}, 9, 9, 9, 9)
			buf := make([]byte, 2048)
			for i := 0; i < 100; i++ {
				_, _ = cl.Write(req)
				_ = cl.SetReadDeadline(time.Now().Add(20 * time.Millisecond))
				n, err := cl.Read(buf)
				if err == nil && n == 16 {
					if scenario == "gated-scrape" {
						p := append(append([]byte{}, buf[8:16]...), 0, 0, 0, 2, 6, 6, 6, 6)
						_, _ = cl.Write(append(p, []byte("aaaaaaaaaaaaaaaaaaaa")...))
						_ = cl.SetReadDeadline(time.Now().Add(500 * time.Millisecond))
						if n2, err2 := cl.Read(buf); err2 == nil && n2 >= 8 && binary.BigEndian.Uint32(buf[:4]) == 2 {
							served++
						}
						break
					}
					_, _ = cl.Write(udpAnnouncePacket(buf[8:16]))
					_ = cl.SetReadDeadline(time.Now().Add(500 * time.Millisecond))
					if n2, err2 := cl.Read(buf); err2 == nil && n2 >= 20 && binary.BigEndian.Uint32(buf[:4]) == 1 {
						served++
					}
					break
				}
			}
			for i := 0; i < 500 && atomic.LoadInt32(&gl.inAfter) == 0; i++ {
				time.Sleep(time.Millisecond)
			}
		}
		res := fe.Stop()
		early, errs := waitStop(res, 150*time.Millisecond)
		stoppedWhileGated := early && strings.HasPrefix(scenario, "gated") && atomic.LoadInt32(&gl.inAfter) > atomic.LoadInt32(&gl.afterEnd)
		left := -1
		if early {
			left = goroutinesLeft("chihaya/frontend/udp.", g0)
			stopStore() // as cmd/chihaya does once the frontends (and the logic) have stopped
		}
		if scenario != "traffic" {
			close(gl.gate)
		}
		if !early {
			ok, e := waitStop(res, 5*time.Second)
			if !ok {
				return "STOP-DID-NOT-COMPLETE"
			}
			errs = e
			left = goroutinesLeft("chihaya/frontend/udp.", g0)
			stopStore()
		}
		for i := 0; i < 1000 && atomic.LoadInt32(&gl.afterEnd) < atomic.LoadInt32(&gl.inAfter); i++ {
			time.Sleep(time.Millisecond)
		}
		usedStopped := atomic.LoadInt32(&gl.panicked) > 0
		// after Stop: a connect must go unanswered
		listening := false
		_, _ = cl.Write(append([]byte{0, 0, 0x04, 0x17, 0x27, 0x10, 0x19, 0x80, 0, 0, 0, 0}, 7, 7, 7, 7))
		_ = cl.SetReadDeadline(time.Now().Add(100 * time.Millisecond))
		if n, err := cl.Read(make([]byte, 64)); err == nil && n > 0 {
			listening = true
		}
		// a second Stop must be harmless
		second, _ := waitStop(fe.Stop(), time.Second)
		return fmt.Sprintf("stopped=1 errs=%d listening=%s stop_returned_while_posthook_running=%s served=%d second_stop=%s store_used_after_stop=%s goroutines_left=%d", len(errs), b01(listening), b01(stoppedWhileGated), served, b01(second), b01(usedStopped), left)
	}()
	c.Emit(op, obs)
}

// life.reload: stop frontends and logic but keep the store, start again: same swarm contents
func lifeReload(c *Ctx, n int) {
	op := fmt.Sprintf("life.reload peers=%d", n)
	obs := func() (o string) {
		defer func() {
			if p := recover(); p != nil {
				o = "PANIC " + strings.Fields(fmt.Sprint(p))[0]
			}
		}()
		ps, lg := newStoreLogic()
		defer func() { <-ps.Stop() }()
		ih := bittorrent.InfoHashFromString("aaaaaaaaaaaaaaaaaaaa")
		for i := 0; i < n; i++ {
			p := bittorrent.Peer{ID: bittorrent.PeerIDFromString(fmt.Sprintf("%020d", i)), Port: uint16(1000 + i), IP: bittorrent.IP{IP: net.IP{10, 0, 0, byte(i)}, AddressFamily: bittorrent.IPv4}}
			req := &bittorrent.AnnounceRequest{InfoHash: ih, Peer: p, Left: uint64(i % 2), NumWant: 10, NumWantProvided: true}
			ctx, resp, err := lg.HandleAnnounce(context.Background(), req)
			if err != nil {
				return "announce-failed"
			}
			lg.AfterAnnounce(ctx, req, resp)
		}
		before := ps.ScrapeSwarm(ih, bittorrent.IPv4)
		port := freePort()
		fe, err := httpfe.NewFrontend(lg, httpfe.Config{Addr: fmt.Sprintf("127.0.0.1:%d", port), AnnounceRoutes: []string{"/announce"}, ScrapeRoutes: []string{"/scrape"}, EnableRequestTiming: true})
		if err != nil {
			return "new-failed"
		}
		// reload: frontends, then logic; the store is kept
		sg := stop.NewGroup()
		sg.Add(fe)
		if errs := sg.Stop().Wait(); len(errs) != 0 {
			return "stop-errs"
		}
		if errs := lg.Stop().Wait(); len(errs) != 0 {
			return "logic-stop-errs"
		}
		lg2 := middleware.NewLogic(middleware.ResponseConfig{AnnounceInterval: 30 * time.Minute, MinAnnounceInterval: 15 * time.Minute}, ps, nil, nil)
		_, sresp, err := lg2.HandleScrape(context.Background(), &bittorrent.ScrapeRequest{AddressFamily: bittorrent.IPv4, InfoHashes: []bittorrent.InfoHash{ih}})
		if err != nil || len(sresp.Files) != 1 {
			return "scrape-failed"
		}
		after := sresp.Files[0]
		return fmt.Sprintf("same=%s c=%d i=%d", b01(after.Complete == before.Complete && after.Incomplete == before.Incomplete), after.Complete, after.Incomplete)
	}()
	c.Emit(op, obs)
}

func replayC16(c *Ctx, op string, a map[string]string) {
	d, _ := strconv.Atoi(a["delay"])
	switch op {
	case "life.binary":
		lifeBinary(c, a["scenario"])
		cleanupBinary()
	case "life.store_stop":
		lifeStoreStop(c)
	case "life.logic_stop":
		np, _ := strconv.Atoi(a["npre"])
		logicStop(c, a["members"], np)
	case "grp.stop":
		grpStop(c, a["members"])
	case "life.http":
		ls := a["listeners"]
		if ls == "" {
			ls = "http"
		}
		lifeHTTPL(c, a["scenario"], d, ls)
	case "life.udp":
		lifeUDP(c, a["scenario"], d)
	case "life.reload":
		n, _ := strconv.Atoi(a["peers"])
		lifeReload(c, n)
	}
}

var _ = errors.New
var _ sync.Mutex
var _ = runtime.Gosched

func runC16(c *Ctx) {
	for _, l := range c.CorpusLines() {
		op, a := parseOp(l)
		replayC16(c, op, a)
	}
	r := c.R
	{
		// a hook with a background loop of its own: the JWT hook's refresh loop must end with its Stop
		var ks []*rsa.PrivateKey
		for i := 0; i < 2; i++ {
			k, err := rsa.GenerateKey(crand.Reader, 2048)
			if err != nil {
				panic(err)
			}
			ks = append(ks, k)
		}
		jwtLifecycle(c, ks)
	}
	cfgFrontendAll(c) // a refused frontend configuration leaves no listener behind
	for _, s := range []string{"-", "z", "a", "n1", "n2", "n1,n1", "z,n2,a,n1", "a,a", "n3,z,z,n1,a,n2"} {
		grpStop(c, s)
	}
	for i := 0; i < c.N; i++ {
		var ms []string
		for j := r.Intn(7); j > 0; j-- {
			ms = append(ms, []string{"z", "a", "n1", "n2", "n3"}[r.Intn(5)])
		}
		s := "-"
		if len(ms) > 0 {
			s = strings.Join(ms, ",")
		}
		grpStop(c, s)
	}
	for i := 0; i < 12+c.N/100; i++ {
		n := r.Intn(6)
		var ms []string
		for j := 0; j < n; j++ {
			ms = append(ms, []string{"p", "p", "n0", "n1", "n2", "n3", "a"}[r.Intn(7)])
		}
		spec := "-"
		if n > 0 {
			spec = strings.Join(ms, ",")
		}
		logicStop(c, spec, r.Intn(n+1))
	}
	for _, sc := range []string{"bad-hook", "bad-posthook", "bad-store", "bad-option", "bad-option-nan", "bad-lists", "good", "good-hooks", "good-metrics"} {
		lifeBinary(c, sc)
	}
	cleanupBinary()
	for i := 0; i < 2; i++ {
		lifeHandlerGate(c, "udp")
		lifeHandlerGate(c, "http")
	}
	if c.Tier == "thorough" {
		lifeUDPRace(c, 6000)
	} else {
		lifeUDPRace(c, 1500)
	}
	if c.Tier == "thorough" {
		lifeHTTPLate(c, 40, 300)
	} else {
		lifeHTTPLate(c, 8, 300)
	}
	lifeMetricsInflight(c, 3)
	if c.Tier == "thorough" {
		lifeMetricsInflight(c, 35)
	}
	lifeMetricsStalled(c, "metrics")
	lifeMetricsStalled(c, "profile")
	for i := 0; i < 8; i++ {
		lifeMetrics(c, i%4 != 0)
		lifeMetrics(c, true)
	}
	if c.Tier == "thorough" {
		lifeMetricsRace(c, 12000)
	} else {
		lifeMetricsRace(c, 2000)
	}
	lifeStoreStop(c)
	lifeStoreStop(c)
	lifeRedisStoreStop(c)
	k := c.N / 40
	if k < 3 {
		k = 3
	}
	for i := 0; i < k; i++ {
		lifeHTTP(c, "immediate", 0)
		lifeHTTP(c, "immediate", []int{50, 200, 1000}[i%3])
		lifeUDP(c, "immediate", 0)
	}
	for i := 0; i < k/2+1; i++ {
		lifeHTTP(c, "gated", 0)
		lifeHTTPL(c, []string{"immediate", "gated", "traffic"}[i%3], 0, []string{"both", "https"}[(i/3)%2])
		lifeUDP(c, "gated", 0)
		lifeUDP(c, "gated-scrape", 0)
		lifeHTTP(c, "gated-scrape", 0)
		lifeHTTP(c, "traffic", 0)
		lifeUDP(c, "traffic", 0)
		lifeReload(c, 1+r.Intn(6))
	}
}

// life.metrics: the standalone metrics server (pkg/metrics), a member of the stop group of cmd/chihaya: it serves the
// Prometheus endpoint, its Stop completes and closes the port — also when Stop comes right after NewServer, before the
// serving goroutine has got to listen.
func lifeMetrics(c *Ctx, immediate bool) {
	op := "life.metrics immediate=" + b01(immediate)
	c.Begin(op)
	obs := func() (o string) {
		defer func() {
			if p := recover(); p != nil {
				o = "PANIC " + strings.Fields(fmt.Sprint(p))[0]
			}
		}()
		port := privatePort()
		addr := fmt.Sprintf("127.0.0.1:%d", port)
		g0 := goroutinesOf("chihaya/pkg/metrics.")
		srv := metrics.NewServer(addr)
		served := "-"
		if !immediate {
			served = "0"
			cl := &http.Client{Timeout: time.Second, Transport: &http.Transport{DisableKeepAlives: true}}
			for i := 0; i < 100; i++ {
				if resp, err := cl.Get("http://" + addr + "/metrics"); err == nil {
					ok := resp.StatusCode == 200
					resp.Body.Close()
					if ok {
						served = "1"
					}
					break
				}
				time.Sleep(20 * time.Millisecond)
			}
		}
		stopped, errs := waitStop(srv.Stop(), 3*time.Second)
		left := goroutinesLeft("chihaya/pkg/metrics.", g0)
		// the moment Stop has completed the address must be free: a reload starts the next server on it at once
		freeAtStop := false
		if l, err := net.Listen("tcp", addr); err == nil {
			l.Close()
			freeAtStop = true
		}
		second := "-"
		if freeAtStop {
			// … which is what happens now: a second server on the same address serves and stops
			srv2 := metrics.NewServer(addr)
			second = "0"
			cl := &http.Client{Timeout: time.Second, Transport: &http.Transport{DisableKeepAlives: true}}
			for i := 0; i < 100; i++ {
				if resp, err := cl.Get("http://" + addr + "/metrics"); err == nil {
					resp.Body.Close()
					second = "1"
					break
				}
				time.Sleep(20 * time.Millisecond)
			}
			if ok, _ := waitStop(srv2.Stop(), 3*time.Second); !ok {
				second = "stop-pending"
			}
		}
		time.Sleep(150 * time.Millisecond)
		listening := false
		if conn, err := net.DialTimeout("tcp", addr, 200*time.Millisecond); err == nil {
			conn.Close()
			listening = true
		}
		return fmt.Sprintf("served=%s stopped=%s errs=%d free_at_stop=%s goroutines_left=%d second_cycle=%s listening=%s", served, b01(stopped), len(errs), b01(freeAtStop), left, second, b01(listening))
	}()
	c.Emit(op, obs)
}

// life.store_stop kind=redis: when the Redis store's Stop has completed, its expiry and metrics loops have returned
func lifeRedisStoreStop(c *Ctx) {
	op := "life.store_stop kind=redis"
	c.Begin(op)
	obs := func() (o string) {
		defer func() {
			if p := recover(); p != nil {
				o = "PANIC " + strings.Fields(fmt.Sprint(p))[0]
			}
		}()
		mr, err := miniredis.Run()
		if err != nil {
			return "miniredis-failed"
		}
		g0 := goroutinesOf("chihaya/storage/redis.")
		ps, err := redisstore.New(redisstore.Config{RedisBroker: "redis://@" + mr.Addr() + "/0", PeerLifetime: time.Hour, GarbageCollectionInterval: 5 * time.Millisecond,
			PrometheusReportingInterval: 5 * time.Millisecond, RedisReadTimeout: 2 * time.Second, RedisWriteTimeout: 2 * time.Second, RedisConnectTimeout: 2 * time.Second})
		if err != nil {
			return "new-failed"
		}
		p := bittorrent.Peer{ID: bittorrent.PeerIDFromString("-VF0001-000000000001"), Port: 6881, IP: bittorrent.IP{IP: []byte{10, 0, 0, 1}, AddressFamily: bittorrent.IPv4}}
		_ = ps.PutSeeder(bittorrent.InfoHashFromString("01234567890123456789"), p)
		time.Sleep(40 * time.Millisecond) // both loops are busy
		stopped, _ := waitStop(ps.Stop(), 3*time.Second)
		left := goroutinesLeft("chihaya/storage/redis.", g0)
		return fmt.Sprintf("stopped=%s goroutines_left=%d", b01(stopped), left)
	}()
	c.Emit(op, obs)
}

// life.metrics_race: Stop at every distance from NewServer between 0 and a few hundred microseconds, many times: the
// window in which the serving goroutine has passed ListenAndServe's shutdown check but has not bound the address yet is
// narrow; whenever Stop completes the address must be free and the goroutine gone.
func lifeMetricsRace(c *Ctx, n int) {
	op := fmt.Sprintf("life.metrics_race n=%d", n)
	c.Begin(op)
	obs := func() (o string) {
		defer func() {
			if p := recover(); p != nil {
				o = "PANIC " + strings.Fields(fmt.Sprint(p))[0]
			}
		}()
		g0 := goroutinesOf("chihaya/pkg/metrics.")
		free, pending := 0, 0
		for i := 0; i < n; i++ {
			c.Touch()
			addr := fmt.Sprintf("127.0.0.1:%d", privatePort())
			srv := metrics.NewServer(addr)
			for spin := (i % 50) * 200; spin > 0; spin-- { // 0 … ~100 µs
				runtime.Gosched()
			}
			if ok, _ := waitStop(srv.Stop(), 5*time.Second); !ok {
				pending++
				continue
			}
			if l, err := net.Listen("tcp", addr); err == nil {
				l.Close()
				free++
			}
		}
		return fmt.Sprintf("free_at_stop=%d/%d stop_pending=%d goroutines_left=%d", free, n, pending, goroutinesLeft("chihaya/pkg/metrics.", g0))
	}()
	c.Emit(op, obs)
}

// handlerGate parks HandleAnnounce itself (not the post-response hook) until the gate opens
type handlerGate struct {
	inner     frontend.TrackerLogic
	gate      chan struct{}
	entered   int32
	afterDone int32
}

func (g *handlerGate) HandleAnnounce(ctx context.Context, req *bittorrent.AnnounceRequest) (context.Context, *bittorrent.AnnounceResponse, error) {
	atomic.StoreInt32(&g.entered, 1)
	<-g.gate
	return g.inner.HandleAnnounce(ctx, req)
}
func (g *handlerGate) AfterAnnounce(ctx context.Context, req *bittorrent.AnnounceRequest, resp *bittorrent.AnnounceResponse) {
	g.inner.AfterAnnounce(ctx, req, resp)
	atomic.StoreInt32(&g.afterDone, 1)
}
func (g *handlerGate) HandleScrape(ctx context.Context, req *bittorrent.ScrapeRequest) (context.Context, *bittorrent.ScrapeResponse, error) {
	return g.inner.HandleScrape(ctx, req)
}
func (g *handlerGate) AfterScrape(ctx context.Context, req *bittorrent.ScrapeRequest, resp *bittorrent.ScrapeResponse) {
	g.inner.AfterScrape(ctx, req, resp)
}

// life.handler_gate: Stop is called while an accepted announce is still inside the tracker logic. Stop must stay
// pending; when the logic lets the request go on, the client gets its answer, the post-response hook runs, and only
// then Stop completes — with nothing of the frontend left running.
func lifeHandlerGate(c *Ctx, proto string) {
	op := "life.handler_gate proto=" + proto
	c.Begin(op)
	obs := func() (o string) {
		defer func() {
			if p := recover(); p != nil {
				o = "PANIC " + strings.Fields(fmt.Sprint(p))[0]
			}
		}()
		pkg := "chihaya/frontend/" + proto + "."
		g0 := goroutinesOf(pkg)
		ps, lg := newStoreLogic()
		defer func() { <-ps.Stop() }()
		hg := &handlerGate{inner: lg, gate: make(chan struct{})}
		answered := make(chan bool, 1)
		var stopper interface{ Stop() stop.Result }
		if proto == "udp" {
			pc, err := net.ListenUDP("udp", &net.UDPAddr{IP: net.IPv4(127, 0, 0, 1)})
			if err != nil {
				return "no-port"
			}
			port := pc.LocalAddr().(*net.UDPAddr).Port
			pc.Close()
			fe, err := udpfe.NewFrontend(hg, udpfe.Config{Addr: fmt.Sprintf("127.0.0.1:%d", port), PrivateKey: udpKey, MaxClockSkew: 10 * time.Second})
			if err != nil {
				return "new-failed"
			}
			stopper = fe
			cl, _ := net.DialUDP("udp", nil, &net.UDPAddr{IP: net.IPv4(127, 0, 0, 1), Port: port})
			defer cl.Close()
			buf := make([]byte, 2048)
			connected := false
			for i := 0; i < 100 && !connected; i++ {
				_, _ = cl.Write(append([]byte{0, 0, 0x04, 0x17, 0x27, 0x10, 0x19, 0x80, 0, 0, 0, 0}, 9, 9, 9, 9))
				_ = cl.SetReadDeadline(time.Now().Add(20 * time.Millisecond))
				if n, err := cl.Read(buf); err == nil && n == 16 {
					connected = true
				}
			}
			if !connected {
				return "never-connected"
			}
			_, _ = cl.Write(udpAnnouncePacket(buf[8:16]))
			go func() {
				_ = cl.SetReadDeadline(time.Now().Add(8 * time.Second))
				b := make([]byte, 2048)
				n, err := cl.Read(b)
				answered <- err == nil && n >= 20 && binary.BigEndian.Uint32(b[:4]) == 1
			}()
		} else {
			port := freePort()
			fe, err := httpfe.NewFrontend(hg, httpfe.Config{Addr: fmt.Sprintf("127.0.0.1:%d", port), AnnounceRoutes: []string{"/announce"}, ScrapeRoutes: []string{"/scrape"}})
			if err != nil {
				return "new-failed"
			}
			stopper = fe
			go func() {
				cl := &http.Client{Timeout: 8 * time.Second, Transport: &http.Transport{DisableKeepAlives: true}}
				var resp *http.Response
				var err error
				for i := 0; i < 100; i++ {
					resp, err = cl.Get(fmt.Sprintf("http://127.0.0.1:%d/announce?info_hash=aaaaaaaaaaaaaaaaaaaa&peer_id=-TR2940-bbbbbbbbbbbb&port=6881&left=5&downloaded=0&uploaded=0&compact=1", port))
					if err == nil {
						break
					}
					time.Sleep(20 * time.Millisecond)
				}
				if err != nil {
					answered <- false
					return
				}
				var b bytes.Buffer
				_, _ = b.ReadFrom(resp.Body)
				resp.Body.Close()
				answered <- resp.StatusCode == 200 && strings.Contains(b.String(), "interval")
			}()
		}
		for i := 0; i < 500 && atomic.LoadInt32(&hg.entered) == 0; i++ {
			time.Sleep(5 * time.Millisecond)
		}
		entered := atomic.LoadInt32(&hg.entered) == 1
		res := stopper.Stop()
		early, _ := waitStop(res, 400*time.Millisecond)
		close(hg.gate)
		ok := false
		select {
		case ok = <-answered:
		case <-time.After(9 * time.Second):
		}
		stopped := early
		if !early {
			stopped, _ = waitStop(res, 5*time.Second)
		}
		afterDone := atomic.LoadInt32(&hg.afterDone) == 1
		left := goroutinesLeft(pkg, g0)
		return fmt.Sprintf("entered=%s stop_pending_while_handler_runs=%s answered=%s stopped=%s after_done_at_stop=%s goroutines_left=%d", b01(entered), b01(!early), b01(ok), b01(stopped), b01(afterDone), left)
	}()
	c.Emit(op, obs)
}

// life.metrics_inflight: Stop is called while the metrics server is in the middle of a long request (a CPU profile
// of secs seconds). Stop has to wait for it: the request ends normally, and only then Stop completes.
func lifeMetricsInflight(c *Ctx, secs int) {
	op := fmt.Sprintf("life.metrics_inflight secs=%d", secs)
	c.Begin(op)
	obs := func() (o string) {
		defer func() {
			if p := recover(); p != nil {
				o = "PANIC " + strings.Fields(fmt.Sprint(p))[0]
			}
		}()
		addr := fmt.Sprintf("127.0.0.1:%d", privatePort())
		srv := metrics.NewServer(addr)
		type result struct {
			ok   bool
			when time.Time
		}
		done := make(chan result, 1)
		go func() {
			cl := &http.Client{Timeout: time.Duration(secs+10) * time.Second, Transport: &http.Transport{DisableKeepAlives: true}}
			var resp *http.Response
			var err error
			for i := 0; i < 100; i++ {
				resp, err = cl.Get(fmt.Sprintf("http://%s/debug/pprof/profile?seconds=%d", addr, secs))
				if err == nil {
					break
				}
				time.Sleep(20 * time.Millisecond)
			}
			if err != nil {
				done <- result{false, time.Now()}
				return
			}
			var b bytes.Buffer
			_, rerr := b.ReadFrom(resp.Body)
			resp.Body.Close()
			done <- result{resp.StatusCode == 200 && rerr == nil && b.Len() > 0, time.Now()}
		}()
		running := false
		for i := 0; i < 300 && !running; i++ {
			time.Sleep(10 * time.Millisecond)
			running = goroutinesOf("net/http/pprof.Profile") > 0
		}
		res := srv.Stop()
		stopped, _ := waitStop(res, time.Duration(secs+8)*time.Second)
		stopAt := time.Now()
		var r result
		select {
		case r = <-done:
		case <-time.After(time.Duration(secs+8) * time.Second):
		}
		if secs > 4 { // longer than Stop is prepared to wait (D37): the request is cut, its handler gone soon after
			gone := false
			for i := 0; i < 200 && !gone; i++ {
				gone = goroutinesOf("net/http/pprof.Profile") == 0
				if !gone {
					time.Sleep(10 * time.Millisecond)
				}
			}
			return fmt.Sprintf("request_running_at_stop=%s stopped=%s request_cut=%s handler_gone=%s", b01(running), b01(stopped), b01(!r.ok), b01(gone))
		}
		return fmt.Sprintf("request_running_at_stop=%s stopped=%s request_ok=%s stop_completed_before_request=%s", b01(running), b01(stopped), b01(r.ok), b01(r.when.IsZero() || stopAt.Before(r.when.Add(-200*time.Millisecond))))
	}()
	c.Emit(op, obs)
}

// life.metrics_stalled: a client of the metrics port announces a request body and never sends it, and keeps its
// connection open. Stop must complete all the same (D37), the port must be free and nothing of the server left.
func lifeMetricsStalled(c *Ctx, kind string) {
	op := "life.metrics_stalled kind=" + kind
	c.Begin(op)
	obs := func() (o string) {
		defer func() {
			if p := recover(); p != nil {
				o = "PANIC " + strings.Fields(fmt.Sprint(p))[0]
			}
		}()
		g0 := goroutinesOf("net/http.(*conn).serve")
		addr := fmt.Sprintf("127.0.0.1:%d", privatePort())
		srv := metrics.NewServer(addr)
		var conn net.Conn
		var err error
		for i := 0; i < 100; i++ {
			if conn, err = net.Dial("tcp", addr); err == nil {
				break
			}
			time.Sleep(20 * time.Millisecond)
		}
		if err != nil {
			<-srv.Stop()
			return "no-connection"
		}
		defer conn.Close()
		// kind=metrics: the handler returns at once and net/http waits for the announced body;
		// kind=profile: the handler itself runs for 30 s, and with the body unread net/http does not watch the connection,
		// so closing it does not cancel the request — only the server's base context does
		path := "/metrics"
		if kind == "profile" {
			path = "/debug/pprof/profile?seconds=30"
		}
		_, _ = conn.Write([]byte("GET " + path + " HTTP/1.1\r\nHost: x\r\nContent-Length: 10\r\n\r\n"))
		// the server is now waiting for the rest of the request (net/http wants the announced body before it answers)
		time.Sleep(300 * time.Millisecond)
		res := srv.Stop()
		stopped, _ := waitStop(res, 12*time.Second)
		free := false
		if stopped {
			if l, e := net.Listen("tcp", addr); e == nil {
				free = true
				l.Close()
			}
		}
		left := -1
		for i := 0; i < 100; i++ {
			left = goroutinesOf("net/http.(*conn).serve") - g0
			if left <= 0 {
				break
			}
			time.Sleep(10 * time.Millisecond)
		}
		return fmt.Sprintf("stop_terminated=%s port_free=%s conn_goroutines_left=%d", b01(stopped), b01(free), left)
	}()
	c.Emit(op, obs)
}

// life.udp_race: Stop right after NewFrontend, many times, at graded distances: when Stop has completed the serving
// goroutine (which NewFrontend has started) must be gone, not about to look at the frontend once more.
func lifeUDPRace(c *Ctx, n int) {
	op := fmt.Sprintf("life.udp_race n=%d", n)
	c.Begin(op)
	obs := func() (o string) {
		defer func() {
			if p := recover(); p != nil {
				o = "PANIC " + strings.Fields(fmt.Sprint(p))[0]
			}
		}()
		ps, lg := newStoreLogic()
		defer func() { <-ps.Stop() }()
		gone, pending := 0, 0
		for i := 0; i < n; i++ {
			c.Touch()
			s0, w0 := goroutinesOf("frontend/udp.(*Frontend).serve"), goroutinesOf("frontend/udp.NewFrontend.func")
			fe, err := udpfe.NewFrontend(lg, udpfe.Config{Addr: "127.0.0.1:0", PrivateKey: udpKey, MaxClockSkew: 10 * time.Second})
			if err != nil {
				return "new-failed"
			}
			for spin := (i % 40) * 100; spin > 0; spin-- {
				runtime.Gosched()
			}
			if ok, _ := waitStop(fe.Stop(), 3*time.Second); !ok {
				pending++
				continue
			}
			// nothing may be inside serve() any more, at once; the goroutine that ran it has signalled the wait group in a
			// deferred call and may still be on its last instructions (seen once in 1500 on a loaded machine): a moment for that
			if goroutinesOf("frontend/udp.(*Frontend).serve") <= s0 && goroutinesLeft("frontend/udp.NewFrontend.func", w0) == 0 {
				gone++
			}
		}
		return fmt.Sprintf("serve_goroutine_gone_at_stop=%d/%d stop_pending=%d", gone, n, pending)
	}()
	c.Emit(op, obs)
}

// privatePort hands out ports below the range the kernel picks ephemeral ports from, one after the other, checking that
// nothing listens there: between this check and the bind of the component under test nobody else will take the port
// (an ephemeral one, as freePort() returns, can be given to any other socket of the machine in that window — fatal for
// components that call log.Fatal when they cannot bind).
var privatePortNext int32 = 21000

func privatePort() int {
	for i := 0; i < 20000; i++ {
		p := int(atomic.AddInt32(&privatePortNext, 1))
		if p > 31000 {
			atomic.StoreInt32(&privatePortNext, 21000)
			continue
		}
		l, err := net.Listen("tcp", fmt.Sprintf("127.0.0.1:%d", p))
		if err != nil {
			continue
		}
		l.Close()
		return p
	}
	return freePort()
}
