package main

// C08: the real frontend/http writers; bodies are decoded by an independent BitTorrent client
// library (anacrolix/torrent/bencode) and compared with the model's value.

import (
	"context"
	"encoding/binary"
	"errors"
	"fmt"
	"net"
	"net/http"
	"net/http/httptest"
	"runtime"
	"sort"
	"strconv"
	"strings"
	"sync"
	"sync/atomic"
	"time"

	abencode "github.com/anacrolix/torrent/bencode"

	"github.com/chihaya/chihaya/bittorrent"
	httpfe "github.com/chihaya/chihaya/frontend/http"
)

func init() { gens["C08"] = &Gen{Run: runC08, Replay: replayC08} }

type wPeer struct {
	id   []byte
	port uint16
	ip   []byte
}

func (p wPeer) blob() string {
	b := append([]byte{}, p.id...)
	b = binary.BigEndian.AppendUint16(b, p.port)
	return hx(append(b, p.ip...))
}

func blobs(ps []wPeer) string {
	if len(ps) == 0 {
		return "-"
	}
	l := make([]string, len(ps))
	for i, p := range ps {
		l[i] = p.blob()
	}
	return strings.Join(l, ",")
}

func toBT(ps []wPeer, af bittorrent.AddressFamily) []bittorrent.Peer {
	var out []bittorrent.Peer
	for _, p := range ps {
		out = append(out, bittorrent.Peer{ID: bittorrent.PeerIDFromBytes(p.id), Port: p.port, IP: bittorrent.IP{IP: append(net.IP{}, p.ip...), AddressFamily: af}})
	}
	return out
}

// canonical print of what an independent client decodes
func clientDecode(body []byte) string {
	var v interface{}
	if err := abencode.Unmarshal(body, &v); err != nil {
		return "UNDECODABLE(" + strings.ReplaceAll(err.Error(), " ", "_") + ")"
	}
	return canonB(v)
}

func httpwAnnounce(c *Ctx, compact bool, complete, incomplete uint32, interval, minInterval int64, p4, p6 []wPeer) {
	ipt := map[string]string{}
	for _, p := range append(append([]wPeer{}, p4...), p6...) {
		ipt[hx(p.ip)] = hx([]byte(net.IP(p.ip).String()))
	}
	var ks []string
	for k := range ipt {
		ks = append(ks, k)
	}
	sort.Strings(ks)
	var m []string
	for _, k := range ks {
		m = append(m, k+":"+ipt[k])
	}
	ms := "-"
	if len(m) > 0 {
		ms = strings.Join(m, ",")
	}
	op := fmt.Sprintf("httpw.announce compact=%s complete=%d incomplete=%d interval=%d mininterval=%d p4=%s p6=%s iptext=%s",
		b01(compact), complete, incomplete, interval, minInterval, blobs(p4), blobs(p6), ms)
	obs := func() (o string) {
		defer func() {
			if p := recover(); p != nil {
				o = "PANIC"
			}
		}()
		rec := httptest.NewRecorder()
		var w http.ResponseWriter = rec
		if slowWrites {
			w = slowWriter{rec}
		}
		resp := &bittorrent.AnnounceResponse{Compact: compact, Complete: complete, Incomplete: incomplete, Interval: time.Duration(interval),
			MinInterval: time.Duration(minInterval), IPv4Peers: toBT(p4, bittorrent.IPv4), IPv6Peers: toBT(p6, bittorrent.IPv6)}
		if err := httpfe.WriteAnnounceResponse(w, resp); err != nil {
			return "write-error"
		}
		return "body=" + clientDecode(rec.Body.Bytes()) + " rt=1"
	}()
	c.Emit(op, obs)
}

// slowWriter yields before it copies the bytes it was handed: a response whose bytes alias a shared
// (pooled) buffer is overwritten by another response being encoded in the meantime.
var slowWrites bool

type slowWriter struct{ *httptest.ResponseRecorder }

func (s slowWriter) Write(b []byte) (int, error) {
	for i := 0; i < 8; i++ {
		runtime.Gosched()
	}
	time.Sleep(20 * time.Microsecond)
	return s.ResponseRecorder.Write(b)
}

// concurrentHTTPWrites: workers encode different responses at the same time through slow writers;
// every body must decode to its own response (compared with the model line by line).
func concurrentHTTPWrites(c *Ctx, r *Rng, workers, per int) {
	slowWrites = true
	defer func() { slowWrites = false }()
	var wg sync.WaitGroup
	for w := 0; w < workers; w++ {
		rr := r.Fork()
		wg.Add(1)
		go func(w int, rr *Rng) {
			defer wg.Done()
			for i := 0; i < per; i++ {
				var p4, p6 []wPeer
				for k := 0; k < rr.Pick(0, 1, 3, 20, 60); k++ {
					p4 = append(p4, wPeer{id: rr.Bytes(20), port: uint16(rr.U64()), ip: []byte{10, byte(w), byte(i), byte(k)}})
				}
				for k := 0; k < rr.Pick(0, 0, 1, 5); k++ {
					ip := rr.Bytes(16)
					ip[0] = 0x20
					p6 = append(p6, wPeer{id: rr.Bytes(20), port: uint16(rr.U64()), ip: ip})
				}
				httpwAnnounce(c, rr.Bool(), uint32(w), uint32(i), int64(1+rr.Intn(3600))*1e9, 900e9, p4, p6)
			}
		}(w, rr)
	}
	wg.Wait()
	c.Kind("concurrent-writes")
}

func httpwScrape(c *Ctx, ihs [][]byte, cs, is []uint32) {
	var hl, cl, il []string
	resp := &bittorrent.ScrapeResponse{}
	for i := range ihs {
		hl = append(hl, hx(ihs[i]))
		cl = append(cl, strconv.FormatUint(uint64(cs[i]), 10))
		il = append(il, strconv.FormatUint(uint64(is[i]), 10))
		resp.Files = append(resp.Files, bittorrent.Scrape{InfoHash: bittorrent.InfoHashFromBytes(ihs[i]), Complete: cs[i], Incomplete: is[i]})
	}
	j := func(l []string) string {
		if len(l) == 0 {
			return "-"
		}
		return strings.Join(l, ",")
	}
	op := "httpw.scrape ihs=" + j(hl) + " cs=" + j(cl) + " is=" + j(il)
	obs := func() (o string) {
		defer func() {
			if p := recover(); p != nil {
				o = "PANIC"
			}
		}()
		w := httptest.NewRecorder()
		if err := httpfe.WriteScrapeResponse(w, resp); err != nil {
			return "write-error"
		}
		return "body=" + clientDecode(w.Body.Bytes())
	}()
	c.Emit(op, obs)
}

func httpwError(c *Ctx, client bool, msg string) {
	cls := "internal"
	if client {
		cls = "client"
	}
	op := "httpw.error cls=" + cls + " msg=" + hx([]byte(msg))
	obs := func() (o string) {
		defer func() {
			if p := recover(); p != nil {
				o = "PANIC"
			}
		}()
		if client {
			w := httptest.NewRecorder()
			if err := httpfe.WriteError(w, bittorrent.ClientError(msg)); err != nil {
				return "write-error"
			}
			return "body=" + clientDecode(w.Body.Bytes())
		}
		w1, w2 := httptest.NewRecorder(), httptest.NewRecorder()
		_ = httpfe.WriteError(w1, errors.New("dial tcp 10.0.0.5:6379: SECRET-A "+msg))
		_ = httpfe.WriteError(w2, fmt.Errorf("wrapped: %w", errors.New("other SECRET-B")))
		b1, b2 := w1.Body.String(), w2.Body.String()
		if b1 != b2 {
			return "body=DEPENDS-ON-ERROR"
		}
		if strings.Contains(b1, "SECRET") || strings.Contains(b1, "10.0.0.5") || (msg != "" && strings.Contains(b1, msg)) {
			return "body=LEAK"
		}
		d := clientDecode([]byte(b1))
		if !strings.HasPrefix(d, "d{"+hx([]byte("failure reason"))+":s") || strings.Contains(d, ",") {
			return "body=NOT-A-SINGLE-FAILURE-REASON " + d
		}
		return "body=GENERIC"
	}()
	c.Emit(op, obs)
}

// httpw.turned_away: a request that reaches the handler of an HTTP frontend whose Stop has begun (D36) is not handed
// to the logic — and what the client gets is still a bencoded dictionary with the one generic failure reason.
type countingLogic struct{ calls int32 }

func (l *countingLogic) HandleAnnounce(ctx context.Context, _ *bittorrent.AnnounceRequest) (context.Context, *bittorrent.AnnounceResponse, error) {
	atomic.AddInt32(&l.calls, 1)
	return ctx, &bittorrent.AnnounceResponse{}, nil
}
func (l *countingLogic) AfterAnnounce(context.Context, *bittorrent.AnnounceRequest, *bittorrent.AnnounceResponse) {
	atomic.AddInt32(&l.calls, 1)
}
func (l *countingLogic) HandleScrape(ctx context.Context, _ *bittorrent.ScrapeRequest) (context.Context, *bittorrent.ScrapeResponse, error) {
	atomic.AddInt32(&l.calls, 1)
	return ctx, &bittorrent.ScrapeResponse{}, nil
}
func (l *countingLogic) AfterScrape(context.Context, *bittorrent.ScrapeRequest, *bittorrent.ScrapeResponse) {
	atomic.AddInt32(&l.calls, 1)
}

func httpwTurnedAway(c *Ctx, route string) {
	op := "httpw.turned_away route=" + route
	obs := func() (o string) {
		defer func() {
			if p := recover(); p != nil {
				o = "PANIC"
			}
		}()
		lg := &countingLogic{}
		h := httpfe.VerifStoppingHandler(lg, httpfe.Config{AnnounceRoutes: []string{"/announce"}, ScrapeRoutes: []string{"/scrape"}})
		uri := "/announce?info_hash=01234567890123456789&peer_id=ABCDEFGHIJKLMNOPQRST&port=6881&left=1&downloaded=0&uploaded=0&compact=1"
		if route == "scrape" {
			uri = "/scrape?info_hash=01234567890123456789"
		}
		req := httptest.NewRequest("GET", uri, nil)
		req.RemoteAddr = "10.1.2.3:4444"
		w := httptest.NewRecorder()
		h.ServeHTTP(w, req)
		time.Sleep(20 * time.Millisecond)
		d := clientDecode(w.Body.Bytes())
		body := "GENERIC"
		if !strings.HasPrefix(d, "d{"+hx([]byte("failure reason"))+":s") || strings.Contains(d, ",") {
			body = "NOT-A-SINGLE-FAILURE-REASON " + d
		}
		return fmt.Sprintf("body=%s logic_calls=%d", body, atomic.LoadInt32(&lg.calls))
	}()
	c.Emit(op, obs)
}

func replayC08(c *Ctx, op string, a map[string]string) {
	i64 := func(k string) int64 { v, _ := strconv.ParseInt(a[k], 10, 64); return v }
	peers := func(k string) []wPeer {
		if a[k] == "-" || a[k] == "" {
			return nil
		}
		var out []wPeer
		for _, s := range strings.Split(a[k], ",") {
			b := unhx(s)
			out = append(out, wPeer{id: b[:20], port: binary.BigEndian.Uint16(b[20:22]), ip: b[22:]})
		}
		return out
	}
	switch op {
	case "httpw.announce":
		httpwAnnounce(c, a["compact"] == "1", uint32(i64("complete")), uint32(i64("incomplete")), i64("interval"), i64("mininterval"), peers("p4"), peers("p6"))
	case "httpw.scrape":
		var ihs [][]byte
		var cs, is []uint32
		if a["ihs"] != "-" {
			for _, s := range strings.Split(a["ihs"], ",") {
				ihs = append(ihs, unhx(s))
			}
			for _, s := range strings.Split(a["cs"], ",") {
				v, _ := strconv.ParseUint(s, 10, 32)
				cs = append(cs, uint32(v))
			}
			for _, s := range strings.Split(a["is"], ",") {
				v, _ := strconv.ParseUint(s, 10, 32)
				is = append(is, uint32(v))
			}
		}
		httpwScrape(c, ihs, cs, is)
	case "httpw.turned_away":
		httpwTurnedAway(c, a["route"])
	case "httpw.error":
		httpwError(c, a["cls"] == "client", string(unhx(a["msg"])))
	}
}

func runC08(c *Ctx) {
	for _, l := range c.CorpusLines() {
		op, a := parseOp(l)
		replayC08(c, op, a)
	}
	httpwTurnedAway(c, "announce")
	httpwTurnedAway(c, "scrape")
	r := c.R
	genPeers := func(n, iplen int) []wPeer {
		var out []wPeer
		for i := 0; i < n; i++ {
			p := wPeer{id: r.Bytes(20), port: uint16(r.U64()), ip: r.Bytes(iplen)}
			switch r.Intn(8) {
			case 0:
				p.port = []uint16{0, 1, 255, 256, 65535}[r.Intn(5)]
			case 1:
				copy(p.id, "-TR2940-")
			case 2:
				if iplen == 16 {
					p.ip = net.ParseIP("2001:db8::" + strconv.Itoa(i+1))
				}
			}
			if iplen == 16 && p.ip[0] == 0 && p.ip[10] == 0xff {
				p.ip[0] = 0x20 // keep it a genuine IPv6 address
			}
			out = append(out, p)
		}
		return out
	}
	intervals := []int64{0, 1, 999999999, 1e9, 1800e9, 1800e9 + 999999999, 3600e9, 1<<63 - 1, -1, -1e9, -1500e6}
	for i := 0; i < c.N; i++ {
		switch r.Intn(10) {
		case 0, 1, 2, 3, 4, 5:
			n4 := r.Pick(0, 0, 1, 2, 3, 10, 50, 100)
			n6 := r.Pick(0, 0, 1, 2, 3, 10, 50)
			cnt := func() uint32 {
				if r.Intn(4) == 0 {
					return []uint32{0, 1, 1<<31 - 1, 1 << 31, 1<<32 - 1}[r.Intn(5)]
				}
				return uint32(r.Intn(5000))
			}
			httpwAnnounce(c, r.Bool(), cnt(), cnt(), intervals[r.Intn(len(intervals))], intervals[r.Intn(len(intervals))], genPeers(n4, 4), genPeers(n6, 16))
			c.Kind("announce")
		case 6, 7:
			n := r.Pick(0, 1, 1, 2, 3, 10, 50)
			var ihs [][]byte
			var cs, is []uint32
			for j := 0; j < n; j++ {
				ih := r.Bytes(20)
				c0, i0 := uint32(r.Intn(1000)), uint32(r.Intn(1000))
				if j > 0 && r.Intn(4) == 0 {
					k := r.Intn(j)
					ih, c0, i0 = ihs[k], cs[k], is[k] // a repeated infohash with the same counts
				}
				if r.Intn(10) == 0 {
					c0, i0 = 1<<32-1, 1<<31
				}
				if r.Intn(15) == 0 {
					copy(ih, "d3:foo") // keys that look like bencode
				}
				ihs, cs, is = append(ihs, ih), append(cs, c0), append(is, i0)
			}
			httpwScrape(c, ihs, cs, is)
			c.Kind("scrape")
		case 8:
			msgs := []string{"hello world", "what's up", "", "unapproved client", "d3:fooe", string(r.Bytes(r.Intn(30))), "a b\x00c", strings.Repeat("x", 300)}
			httpwError(c, true, msgs[r.Intn(len(msgs))])
			c.Kind("client-error")
		case 9:
			httpwError(c, false, []string{"", "secret detail", "redis: connection refused"}[r.Intn(3)])
			c.Kind("internal-error")
		}
	}
	// malformed responses: a peer of the wrong family must behave as the model says (panic sites of the writer)
	concurrentHTTPWrites(c, r, 16, c.N/40+5)
	httpwAnnounce(c, true, 1, 1, 1800e9, 900e9, []wPeer{{id: r.Bytes(20), port: 1, ip: net.ParseIP("2001:db8::1")}}, nil)
	httpwAnnounce(c, true, 1, 1, 1800e9, 900e9, nil, []wPeer{{id: r.Bytes(20), port: 1, ip: []byte{10, 0, 0, 1}}})
	httpwAnnounce(c, true, 1, 1, 1800e9, 900e9, []wPeer{{id: r.Bytes(20), port: 1, ip: []byte{1, 2, 3}}}, nil)
}
