package main

// Tracker-level streams (C12, C13, and the count part of C01): the real middleware.Logic with
// table-driven instrumented hooks, a real store, and both real frontends' request handlers.

import (
	"context"
	"encoding/binary"
	"errors"
	"fmt"
	"net"
	"net/http"
	"net/http/httptest"
	"net/url"
	"runtime"
	"sort"
	"strconv"
	"strings"
	"sync"
	"time"

	abencode "github.com/anacrolix/torrent/bencode"

	"github.com/chihaya/chihaya/bittorrent"
	"github.com/chihaya/chihaya/frontend"
	httpfe "github.com/chihaya/chihaya/frontend/http"
	udpfe "github.com/chihaya/chihaya/frontend/udp"
	"github.com/chihaya/chihaya/middleware"
	"github.com/chihaya/chihaya/pkg/timecache"
)

type trkLog struct {
	mu        sync.Mutex
	pre, post []int
	postFail  bool
	preFail   bool // a configured pre-hook rejected
	called    bool // the logic was entered (the request parsed)
}

type tHook struct {
	code  string
	idx   int
	phase string
	log   *trkLog
}

type ctxTagKey struct{}

func (h *tHook) run(ctx context.Context) (context.Context, error) {
	h.log.mu.Lock()
	if h.phase == "pre" {
		h.log.pre = append(h.log.pre, h.idx)
	} else {
		h.log.post = append(h.log.post, h.idx)
	}
	h.log.mu.Unlock()
	if h.phase == "pre" && (h.code == "Rc" || h.code == "Ri") {
		h.log.mu.Lock()
		h.log.preFail = true
		h.log.mu.Unlock()
	}
	switch h.code {
	case "Rc":
		return ctx, bittorrent.ClientError("rejected by hook")
	case "Ri":
		if h.phase == "post" {
			h.log.mu.Lock()
			h.log.postFail = true
			h.log.mu.Unlock()
		}
		return ctx, errors.New("hook failed: SECRET-HOOK-DETAIL 10.0.0.5")
	case "Ss":
		return context.WithValue(ctx, middleware.SkipSwarmInteractionKey, true), nil
	case "Sr":
		return context.WithValue(ctx, middleware.SkipResponseHookKey, true), nil
	case "T":
		return context.WithValue(ctx, ctxTagKey{}, 1), nil
	}
	return ctx, nil
}

func (h *tHook) HandleAnnounce(ctx context.Context, req *bittorrent.AnnounceRequest, resp *bittorrent.AnnounceResponse) (context.Context, error) {
	if h.code == "M" {
		h.log.mu.Lock()
		if h.phase == "pre" {
			h.log.pre = append(h.log.pre, h.idx)
		} else {
			h.log.post = append(h.log.post, h.idx)
		}
		h.log.mu.Unlock()
		resp.Interval += time.Second
		return ctx, nil
	}
	ctx, err := h.run(ctx)
	if err != nil && h.phase == "post" {
		h.log.mu.Lock()
		h.log.postFail = true
		h.log.mu.Unlock()
	}
	return ctx, err
}

func (h *tHook) HandleScrape(ctx context.Context, req *bittorrent.ScrapeRequest, resp *bittorrent.ScrapeResponse) (context.Context, error) {
	code := h.code
	if code == "Ss" || code == "M" {
		h.code = "A"
	}
	ctx, err := h.run(ctx)
	h.code = code
	if err != nil && h.phase == "post" {
		h.log.mu.Lock()
		h.log.postFail = true
		h.log.mu.Unlock()
	}
	return ctx, err
}

// waitLogic wraps the real Logic so that the harness knows when the post-response hooks are done.
type waitLogic struct {
	inner frontend.TrackerLogic
	done  chan struct{}
	lg    *trkLog
}

func (w *waitLogic) entered() {
	if w.lg != nil {
		w.lg.mu.Lock()
		w.lg.called = true
		w.lg.mu.Unlock()
	}
}

func (w *waitLogic) HandleAnnounce(ctx context.Context, req *bittorrent.AnnounceRequest) (context.Context, *bittorrent.AnnounceResponse, error) {
	w.entered()
	return w.inner.HandleAnnounce(ctx, req)
}
func (w *waitLogic) AfterAnnounce(ctx context.Context, req *bittorrent.AnnounceRequest, resp *bittorrent.AnnounceResponse) {
	w.inner.AfterAnnounce(ctx, req, resp)
	w.done <- struct{}{}
}
func (w *waitLogic) HandleScrape(ctx context.Context, req *bittorrent.ScrapeRequest) (context.Context, *bittorrent.ScrapeResponse, error) {
	w.entered()
	return w.inner.HandleScrape(ctx, req)
}
func (w *waitLogic) AfterScrape(ctx context.Context, req *bittorrent.ScrapeRequest, resp *bittorrent.ScrapeResponse) {
	w.inner.AfterScrape(ctx, req, resp)
	w.done <- struct{}{}
}

func mkHooks(codes []string, phase string, lg *trkLog) []middleware.Hook {
	var hs []middleware.Hook
	for i, c := range codes {
		hs = append(hs, &tHook{code: c, idx: i, phase: phase, log: lg})
	}
	return hs
}

func splitCodes(s string) []string {
	if s == "-" || s == "" {
		return nil
	}
	return strings.Split(s, ",")
}

func logStr(l []int) string {
	p := make([]string, len(l))
	for i, x := range l {
		p[i] = strconv.Itoa(x)
	}
	return "[" + strings.Join(p, ",") + "]"
}

// afterWait waits for the post-response hooks if they were started; `expect` tells how long to insist.
func afterWait(w *waitLogic, expect bool) bool {
	d := 300 * time.Microsecond
	if expect {
		d = 5 * time.Second
	} else {
		runtime.Gosched()
	}
	select {
	case <-w.done:
		return true
	case <-time.After(d):
		return false
	}
}

// while the Redis behind the store is switched off (st.fail on=1) the tracker-level cases stay ordinary trk.* lines:
// the model knows a failing store (StoreOps.down: the response hook answers with the fixed internal error, the swarm
// is left alone), so the outage is compared line by line like everything else
func faultPrefix() string { return "" }

func scrapeCounts(ih []byte, v6 bool) string {
	af := bittorrent.IPv4
	if v6 {
		af = bittorrent.IPv6
	}
	s := rig.pick(map[string]string{"inst": "0"}).ScrapeSwarm(bittorrent.InfoHashFromBytes(ih), af)
	return fmt.Sprintf("%d/%d", s.Complete, s.Incomplete)
}

type trkCase struct {
	pre, post []string
	iv, miv   int64
}

func (tc trkCase) args() string {
	j := func(l []string) string {
		if len(l) == 0 {
			return "-"
		}
		return strings.Join(l, ",")
	}
	return fmt.Sprintf("pre=%s post=%s iv=%d miv=%d", j(tc.pre), j(tc.post), tc.iv, tc.miv)
}

func (tc trkCase) logic(lg *trkLog) *waitLogic {
	l := middleware.NewLogic(middleware.ResponseConfig{AnnounceInterval: time.Duration(tc.iv), MinAnnounceInterval: time.Duration(tc.miv)},
		rig.pick(map[string]string{"inst": "0"}), mkHooks(tc.pre, "pre", lg), mkHooks(tc.post, "post", lg))
	return &waitLogic{inner: l, done: make(chan struct{}, 4), lg: lg}
}

// finishLogs turns the instrumented logs into the model's convention (built-in hooks get the next index).
func finishLogs(tc trkCase, lg *trkLog, handled, afterRan bool) string {
	lg.mu.Lock()
	defer lg.mu.Unlock()
	pre := append([]int{}, lg.pre...)
	post := append([]int{}, lg.post...)
	if handled || (lg.called && !lg.preFail && len(pre) == len(tc.pre)) {
		// the built-in response hook ran (last in the chain); when it is the one that failed — the store was
		// unreachable — it still counts as run, like any failing hook
		pre = append(pre, len(tc.pre))
	}
	if afterRan {
		// the built-in swarm interaction hook ends the post chain; it is not instrumented: whether it ran shows in the
		// store dump that follows (since the repair D28 it runs whatever the post-hooks before it did)
		post = append(post, len(tc.post))
	}
	return "prelog=" + logStr(pre) + " postlog=" + logStr(post)
}

func httpErrCls(body []byte) string {
	var v map[string]interface{}
	if err := abencode.Unmarshal(body, &v); err != nil || len(v) != 1 {
		return "?"
	}
	msg, ok := v["failure reason"].(string)
	if !ok {
		return "?"
	}
	if strings.Contains(msg, "SECRET") || strings.Contains(msg, "10.0.0.5") {
		return "LEAK"
	}
	if isClientMsgHTTP(msg) {
		return "client"
	}
	return "internal"
}

func trkHTTPAnnounce(c *Ctx, hc httpCase, tc trkCase) {
	lg := &trkLog{}
	wl := tc.logic(lg)
	h := httpfe.VerifHandler(wl, httpfe.Config{AnnounceRoutes: []string{"/announce"}, ScrapeRoutes: []string{"/scrape"}, EnableRequestTiming: len(hc.uri)%2 == 0,
		ParseOptions: httpfe.ParseOptions{AllowIPSpoofing: hc.spoof, RealIPHeader: hc.hdrName, MaxNumWant: hc.maxnw, DefaultNumWant: hc.defnw, MaxScrapeInfoHashes: hc.maxsc}})
	op := "trk.http_announce uri=" + hx([]byte(hc.uri)) + " " + envArgs(hc) + " hdrname=" + hx([]byte(hc.hdrName)) + " raddr=" + hx([]byte(hc.remoteAddr)) + " " + tc.args()
	c.Begin(op)
	selfOnly := false
	defer func() { _ = selfOnly }()
	obs := func() (o string) {
		defer func() {
			if p := recover(); p != nil {
				o = "PANIC"
			}
		}()
		r, _ := hc.request()
		r.URL = &url.URL{Path: "/announce"}
		// which swarm will this touch? (only needed for the pre/post counts; taken from the real parser's view)
		var ih []byte
		v6 := false
		if req, err := httpfe.ParseAnnounce(r, httpfe.ParseOptions{AllowIPSpoofing: hc.spoof, RealIPHeader: hc.hdrName, MaxNumWant: max32(hc.maxnw, 100), DefaultNumWant: max32(hc.defnw, 50), MaxScrapeInfoHashes: 50}); err == nil {
			ih = req.InfoHash[:]
			v6 = req.IP.AddressFamily == bittorrent.IPv6
		}
		pre := ""
		if ih != nil {
			pre = scrapeCounts(ih, v6)
		}
		w := httptest.NewRecorder()
		h.ServeHTTP(w, r)
		body := w.Body.Bytes()
		var v map[string]interface{}
		if err := abencode.Unmarshal(body, &v); err != nil {
			return "UNDECODABLE"
		}
		if _, isErr := v["failure reason"]; isErr {
			ran := afterWait(wl, false)
			if ran {
				return "AFTER-RAN-ON-ERROR"
			}
			return "err cls=" + httpErrCls(body) + " " + finishLogs(tc, lg, false, false)
		}
		ran := afterWait(wl, true)
		post := scrapeCounts(ih, v6)
		n4, n6 := 0, 0
		switch p := v["peers"].(type) {
		case string:
			n4 = len(p) / 6
		case []interface{}:
			for _, e := range p {
				d, _ := e.(map[string]interface{})
				ip, _ := d["ip"].(string)
				if strings.Contains(ip, ":") {
					n6++
				} else {
					n4++
				}
			}
		}
		if p6, ok := v["peers6"].(string); ok {
			n6 += len(p6) / 18
		}
		if req, err := httpfe.ParseAnnounce(r, httpfe.ParseOptions{AllowIPSpoofing: hc.spoof, RealIPHeader: hc.hdrName, MaxNumWant: 100, DefaultNumWant: 50}); err == nil && n4+n6 == 1 {
			selfOnly = onlyPeerIs(v, req.Peer)
		}
		return fmt.Sprintf("ok c=%v i=%v iv=%v miv=%v n4=%d n6=%d pre=%s post=%s %s", v["complete"], v["incomplete"], v["interval"], v["min interval"],
			n4, n6, pre, post, finishLogs(tc, lg, true, ran))
	}()
	c.Emit(faultPrefix()+op+" self="+b01(selfOnly), obs)
}

func max32(a, b uint32) uint32 {
	if a == 0 {
		return b
	}
	return a
}

func onlyPeerIs(v map[string]interface{}, p bittorrent.Peer) bool {
	var port [2]byte
	binary.BigEndian.PutUint16(port[:], p.Port)
	if s, ok := v["peers"].(string); ok && len(s) == 6 {
		return s == string(p.IP.IP.To4())+string(port[:])
	}
	if s, ok := v["peers6"].(string); ok && len(s) == 18 {
		return s == string(p.IP.IP.To16())+string(port[:])
	}
	if l, ok := v["peers"].([]interface{}); ok && len(l) == 1 {
		d, _ := l[0].(map[string]interface{})
		ip, _ := d["ip"].(string)
		pt, _ := d["port"].(int64)
		return net.ParseIP(ip).Equal(p.IP.IP) && uint16(pt) == p.Port
	}
	return false
}

func trkHTTPScrape(c *Ctx, hc httpCase, tc trkCase) {
	lg := &trkLog{}
	wl := tc.logic(lg)
	h := httpfe.VerifHandler(wl, httpfe.Config{AnnounceRoutes: []string{"/announce"}, ScrapeRoutes: []string{"/scrape"},
		ParseOptions: httpfe.ParseOptions{AllowIPSpoofing: hc.spoof, RealIPHeader: hc.hdrName, MaxNumWant: hc.maxnw, DefaultNumWant: hc.defnw, MaxScrapeInfoHashes: hc.maxsc}})
	op := "trk.http_scrape uri=" + hx([]byte(hc.uri)) + " " + envArgs(hc) + " hdrname=" + hx([]byte(hc.hdrName)) + " raddr=" + hx([]byte(hc.remoteAddr)) + " " + tc.args()
	obs := func() (o string) {
		defer func() {
			if p := recover(); p != nil {
				o = "PANIC"
			}
		}()
		r, _ := hc.request()
		r.URL = &url.URL{Path: "/scrape"}
		w := httptest.NewRecorder()
		h.ServeHTTP(w, r)
		body := w.Body.Bytes()
		var v map[string]interface{}
		if err := abencode.Unmarshal(body, &v); err != nil {
			return "UNDECODABLE"
		}
		if _, isErr := v["failure reason"]; isErr {
			if afterWait(wl, false) {
				return "AFTER-RAN-ON-ERROR"
			}
			return "err cls=" + httpErrCls(body) + " " + finishLogs(tc, lg, false, false)
		}
		ran := afterWait(wl, true)
		return "ok body=" + clientDecode(body) + " " + finishLogs(tc, lg, true, ran)
	}()
	c.Emit(faultPrefix()+op, obs)
}

func trkUDP(c *Ctx, uc udpCase, tc trkCase) {
	lg := &trkLog{}
	wl := tc.logic(lg)
	fe, err := udpfe.VerifNewFrontend(wl, udpfe.Config{PrivateKey: udpKey, MaxClockSkew: time.Duration(uc.skew), EnableRequestTiming: len(uc.pkt)%2 == 0,
		ParseOptions: udpfe.ParseOptions{AllowIPSpoofing: uc.spoof, MaxNumWant: uc.maxnw, DefaultNumWant: uc.defnw, MaxScrapeInfoHashes: uc.ms}})
	if err != nil {
		panic(err)
	}
	defer fe.VerifClose()
	cl, err := net.ListenUDP("udp", &net.UDPAddr{IP: net.IPv4(127, 0, 0, 1)})
	if err != nil {
		panic(err)
	}
	defer cl.Close()
	timecache.VerifSetClock(uc.now)
	rig.clock = uc.now
	tag := []byte{0, 0, 0, 0}
	if len(uc.pkt) >= 4 {
		tag = macTag(udpKey, append(append([]byte{}, uc.pkt[:4]...), uc.src...))
	}
	var ts [4]byte
	binary.BigEndian.PutUint32(ts[:], uint32(time.Unix(0, uc.now).Unix()))
	gtag := macTag(udpKey, append(ts[:], uc.src...))
	optArea := []byte{}
	var ih []byte
	isAnn := false
	if len(uc.pkt) >= 16 {
		act := binary.BigEndian.Uint32(uc.pkt[8:12])
		off := 98
		if act == 4 {
			off = 110
		}
		if len(uc.pkt) > off {
			optArea = uc.pkt[off:]
		}
		if (act == 1 || act == 4) && len(uc.pkt) >= 36 {
			ih = uc.pkt[16:36]
			isAnn = true
		}
	}
	op := fmt.Sprintf("trk.udp pkt=%s src=%s now=%d skew=%d spoof=%s maxnw=%d defnw=%d maxscrape=%d tag=%s gtag=%s lowmap=%s %s",
		hx(uc.pkt), hx(uc.src), uc.now, uc.skew, b01(uc.spoof), uc.maxnw, uc.defnw, uc.ms, hx(tag), hx(gtag), lowmapOf(urlDataOf(optArea)), tc.args())
	c.Begin(op)
	selfOnly := false
	obs := func() (o string) {
		defer func() {
			if p := recover(); p != nil {
				o = "PANIC"
			}
		}()
		src := append(net.IP{}, uc.src...)
		// the family the client itself expects to be in: its source address, or - with spoofing allowed - the
		// non-zero address it supplied (specification of C11, not taken from the code under test)
		self := append(net.IP{}, uc.src...)
		if s4 := self.To4(); s4 != nil {
			self = s4
		}
		if uc.spoof && len(uc.pkt) >= 98 {
			switch binary.BigEndian.Uint32(uc.pkt[8:12]) {
			case 1:
				if f := uc.pkt[84:88]; string(f) != "\x00\x00\x00\x00" {
					self = append(net.IP{}, f...)
				}
			case 4:
				if len(uc.pkt) >= 110 {
					if f := uc.pkt[84:100]; string(f) != string(make([]byte, 16)) {
						self = append(net.IP{}, f...)
						if s4 := self.To4(); s4 != nil {
							self = s4
						}
					}
				}
			}
		}
		v6 := len(self) == 16
		pre := ""
		if isAnn {
			pre = scrapeCounts(ih, v6)
		}
		_ = fe.VerifHandle(append([]byte{}, uc.pkt...), src, cl.LocalAddr().(*net.UDPAddr))
		fe.VerifSentinel(cl.LocalAddr().(*net.UDPAddr))
		var dgrams [][]byte
		buf := make([]byte, 65536)
		for {
			_ = cl.SetReadDeadline(time.Now().Add(3 * time.Second))
			n, _, err := cl.ReadFromUDP(buf)
			if err != nil {
				return "SENTINEL-LOST"
			}
			if string(buf[:n]) == "\xffVERIF-SENTINEL\xff" {
				break
			}
			dgrams = append(dgrams, append([]byte{}, buf[:n]...))
		}
		if len(dgrams) > 1 {
			return "TWO-DATAGRAMS"
		}
		if len(dgrams) == 0 {
			if afterWait(wl, false) {
				return "AFTER-RAN-ON-SILENCE"
			}
			return "silent " + finishLogs(tc, lg, false, false)
		}
		d := dgrams[0]
		if len(d) >= 8 && binary.BigEndian.Uint32(d[:4]) == 3 {
			msg := d[8:]
			nul := len(msg) > 0 && msg[len(msg)-1] == 0
			if nul {
				msg = msg[:len(msg)-1]
			}
			cls := "internal"
			switch {
			case strings.Contains(string(msg), "SECRET") || strings.Contains(string(msg), "10.0.0.5"):
				cls = "LEAK"
			case isClientMsgUDP(string(msg)):
				cls = "client"
			}
			if afterWait(wl, false) {
				return "AFTER-RAN-ON-ERROR"
			}
			return "error tx=" + hx(d[4:8]) + " cls=" + cls + " nul=" + b01(nul) + " " + finishLogs(tc, lg, false, false)
		}
		act := binary.BigEndian.Uint32(d[:4])
		if (act == 1 || act == 4) && len(d) >= 20 {
			ran := afterWait(wl, true)
			post := scrapeCounts(ih, v6 || false)
			w := 6
			if v6 {
				w = 18
			}
			n := (len(d) - 20) / w
			n4, n6 := n, 0
			if v6 {
				n4, n6 = 0, n
			}
			if n == 1 {
				// the announcer's own endpoint: source address (no spoofing in this stream) + announced port
				var port []byte
				if binary.BigEndian.Uint32(uc.pkt[8:12]) == 1 && len(uc.pkt) >= 98 {
					port = uc.pkt[96:98]
				} else if len(uc.pkt) >= 110 {
					port = uc.pkt[108:110]
				}
				selfOnly = string(d[20:]) == string(self)+string(port)
			}
			lch, sdr := binary.BigEndian.Uint32(d[12:16]), binary.BigEndian.Uint32(d[16:20])
			return fmt.Sprintf("ok a=%d tx=%s c=%d i=%d iv=%d miv=%d n4=%d n6=%d pre=%s post=%s %s", act, hx(d[4:8]), sdr, lch, binary.BigEndian.Uint32(d[8:12]),
				tc.miv/1e9, n4, n6, pre, post, finishLogs(tc, lg, true, ran))
		}
		handled := act == 2
		ran := false
		if handled {
			ran = afterWait(wl, true)
		}
		return "dgram=" + hx(d) + " " + finishLogs(tc, lg, handled, ran)
	}()
	c.Emit(faultPrefix()+op+" self="+b01(selfOnly), obs)
}

func replayTracker(c *Ctx, op string, a map[string]string) {
	if strings.HasPrefix(op, "st.") {
		storeOp(c, op, a)
		return
	}
	i64 := func(k string) int64 { v, _ := strconv.ParseInt(a[k], 10, 64); return v }
	u32 := func(k string) uint32 { v, _ := strconv.ParseUint(a[k], 10, 32); return uint32(v) }
	tc := trkCase{pre: splitCodes(a["pre"]), post: splitCodes(a["post"]), iv: i64("iv"), miv: i64("miv")}
	switch op {
	case "udp.overlap":
		b, _ := strconv.Atoi(a["burst"])
		udpOverlap(c, a["prelude"], b)
	case "udp.served":
		udpServed(c, strings.Split(a["seq"], ","))

	case "trk.http_announce", "trk.http_scrape":
		hc := httpCase{uri: string(unhx(a["uri"])), spoof: a["spoof"] == "1", hdrName: string(unhx(a["hdrname"])), remoteAddr: string(unhx(a["raddr"])),
			maxnw: u32("maxnw"), defnw: u32("defnw"), maxsc: u32("maxscrape")}
		if a["hdr"] != "~" {
			hc.hdrVal = string(unhx(a["hdr"]))
		}
		if op == "trk.http_announce" {
			trkHTTPAnnounce(c, hc, tc)
		} else {
			trkHTTPScrape(c, hc, tc)
		}
	case "trk.udp":
		uc := udpCase{pkt: unhx(a["pkt"]), src: net.IP(unhx(a["src"])), now: i64("now"), skew: i64("skew"), spoof: a["spoof"] == "1", maxnw: u32("maxnw"), defnw: u32("defnw"), ms: u32("maxscrape")}
		trkUDP(c, uc, tc)
	}
}

var _ = sort.Strings
var _ http.Handler
