package main

import (
	"encoding/binary"
	"fmt"
	"net"
	"net/url"
	"strconv"
	"strings"
	"time"
)

func init() {
	gens["C12"] = &Gen{Run: func(c *Ctx) { runTracker(c, "C12") }, Replay: replayTracker}
	gens["C13"] = &Gen{Run: func(c *Ctx) { runTracker(c, "C13") }, Replay: replayTracker}
	gens["C01T"] = &Gen{Run: func(c *Ctx) { runTracker(c, "C01T") }, Replay: replayTracker}
	gens["C03T"] = &Gen{Run: func(c *Ctx) { runTracker(c, "C03T") }, Replay: replayTracker}
	gens["C09T"] = &Gen{Run: func(c *Ctx) { runTracker(c, "C09T") }, Replay: replayTracker}
}

type trkPeer struct {
	id   []byte
	port uint16
	ip   net.IP // 4 or 16 bytes
}

func (p trkPeer) remote() string {
	if len(p.ip) == 4 {
		return fmt.Sprintf("%s:%d", p.ip.String(), 40000)
	}
	return fmt.Sprintf("[%s]:%d", p.ip.String(), 40000)
}

func coherentURI(r *Rng, ih []byte, p trkPeer, left uint64, event string, numwant int, compact bool) string {
	q := []string{"info_hash=" + url.QueryEscape(string(ih)), "peer_id=" + url.QueryEscape(string(p.id)), "port=" + strconv.Itoa(int(p.port)),
		"left=" + strconv.FormatUint(left, 10), "downloaded=0", "uploaded=0"}
	if event != "" {
		q = append(q, "event="+event)
	}
	if numwant >= 0 {
		q = append(q, "numwant="+strconv.Itoa(numwant))
	}
	if compact {
		q = append(q, "compact=1")
	}
	for i := len(q) - 1; i > 0; i-- {
		j := r.Intn(i + 1)
		q[i], q[j] = q[j], q[i]
	}
	return "/announce?" + strings.Join(q, "&")
}

func coherentUDP(r *Rng, uc *udpCase, ih []byte, p trkPeer, left uint64, event uint32, numwant uint32) {
	f := annFields{action: 1, tx: r.Bytes(4), ih: ih, pid: p.id, left: left, event: event, key: uint32(r.U64()), numWant: numwant, port: p.port, ipField: make([]byte, 4)}
	if len(p.ip) == 16 && r.Bool() {
		f.action, f.ipField = 4, make([]byte, 16)
	}
	uc.src = p.ip
	f.connID = validConnID(*uc, time.Duration(r.Intn(60))*time.Second)
	uc.pkt = f.build()
}

// spoofUDP: the provided-address field in either action, crossing families with the source; sources include v4-mapped ones
func spoofUDP(r *Rng, uc *udpCase, ih []byte, p trkPeer, left uint64, event uint32, numwant uint32) {
	f := annFields{action: 1, tx: r.Bytes(4), ih: ih, pid: p.id, left: left, event: event, key: uint32(r.U64()), numWant: numwant, port: p.port, ipField: make([]byte, 4)}
	uc.spoof = r.Bool()
	uc.src = p.ip
	if len(p.ip) == 4 && r.Intn(3) == 0 {
		uc.src = p.ip.To16()
	}
	if r.Bool() {
		f.action, f.ipField = 4, make([]byte, 16)
	}
	if r.Intn(3) != 0 {
		if f.action == 1 {
			copy(f.ipField, []net.IP{{10, 0, 0, 9}, {10, 0, 0, 1}, {0, 0, 0, 1}}[r.Intn(3)])
		} else {
			copy(f.ipField, []net.IP{net.ParseIP("2001:db8::9"), net.ParseIP("::ffff:10.0.0.8"), net.ParseIP("::1"), net.ParseIP("2001:db8::1"), net.ParseIP(nearMappedV6[0]), net.ParseIP(nearMappedV6[1])}[r.Intn(6)])
		}
	}
	f.connID = validConnID(*uc, time.Duration(r.Intn(60))*time.Second)
	uc.pkt = f.build()
}

var hookCodes = []string{"A", "A", "A", "T", "M", "Rc", "Ri", "Ss", "Sr"}

func randChain(r *Rng, maxLen int, rejectBias int) []string {
	n := r.Intn(maxLen + 1)
	var out []string
	for i := 0; i < n; i++ {
		c := hookCodes[r.Intn(len(hookCodes))]
		if (c == "Rc" || c == "Ri") && r.Intn(100) >= rejectBias {
			c = "A"
		}
		out = append(out, c)
	}
	return out
}

func runTracker(c *Ctx, profile string) {
	for _, l := range c.CorpusLines() {
		op, a := parseOp(l)
		replayTracker(c, op, a)
	}
	if profile == "C13" {
		genServed(c, c.R, c.N/400+6)
	}
	if profile == "C12" {
		trkAlias(c)
	}
	r := c.R
	seqLen := 40
	nseq := c.N / (seqLen * 2)
	if nseq < 1 {
		nseq = 1
	}
	for s := 0; s < nseq; s++ {
		kind, n := "memory", []int{1, 2, 3, 1024}[r.Intn(4)]
		if r.Intn(4) == 0 {
			kind = "redis"
		}
		storeOp(c, "st.reset", map[string]string{"n": strconv.Itoa(n), "kind": kind, "instances": "1"})
		clock := int64(1700000000e9) + int64(r.Intn(1000))*1e9
		storeOp(c, "st.clock", map[string]string{"t": strconv.FormatInt(clock, 10)})
		// universe
		var ihs [][]byte
		for i := 0; i < 2+r.Intn(2); i++ {
			ih := r.Bytes(20)
			binary.BigEndian.PutUint32(ih[:4], []uint32{0, 1, 3, 1024}[r.Intn(4)])
			ihs = append(ihs, ih)
		}
		var peers []trkPeer
		ips := []net.IP{{10, 0, 0, 1}, {10, 0, 0, 2}, {10, 0, 0, 3}, net.ParseIP("2001:db8::1"), net.ParseIP("2001:db8::2")}
		if profile == "C03T" || profile == "C13" { // genuine IPv6 addresses that resemble IPv4-mapped ones
			ips = append(ips, net.ParseIP(nearMappedV6[r.Intn(len(nearMappedV6))]), net.ParseIP(nearMappedV6[r.Intn(len(nearMappedV6))]))
		}
		for i := 0; i < 4+r.Intn(3); i++ {
			peers = append(peers, trkPeer{id: r.Bytes(20), port: uint16(1000 + r.Intn(3)), ip: ips[r.Intn(len(ips))]})
		}
		downFor := 0
		for i := 0; i < seqLen; i++ {
			tc := trkCase{iv: 1800e9, miv: 900e9}
			switch profile {
			case "C12":
				tc.pre, tc.post = randChain(r, 6, 35), randChain(r, 4, 25)
			case "C13":
				tc.pre, tc.post = randChain(r, 3, 10), randChain(r, 2, 10)
			case "C09T", "C03T": // stock hooks only
			default:
				if r.Intn(6) == 0 {
					tc.pre = randChain(r, 2, 0)
				}
			}
			ih := ihs[r.Intn(len(ihs))]
			if i < seqLen/2 {
				ih = ihs[0]
			}
			p := peers[r.Intn(len(peers))]
			left := uint64(0)
			if r.Intn(5) < 3 {
				left = uint64(1 + r.Intn(1000))
			}
			evs := []string{"", "", "started", "completed", "stopped"}
			evc := []uint32{0, 0, 2, 1, 3}
			e := r.Intn(len(evs))
			nw := []int{-1, -1, 0, 1, 2, 50, 200}[r.Intn(7)]
			malformed := profile == "C13" && r.Intn(2) == 0
			pick := r.Intn(10)
			if profile == "C09T" { // UDP only, scrape-heavy: the whole path datagram -> logic -> store -> datagram
				pick = []int{4, 5, 6, 8, 8, 8, 8, 8, 9, 4}[pick]
			}
			if profile == "C03T" { // announces of both frontends, then scrapes
				pick = []int{0, 1, 2, 4, 5, 6, 4, 7, 8, 9}[pick]
				if nw < 50 && r.Intn(4) != 0 {
					nw = 200
				}
			}
			if downFor > 0 && pick == 9 {
				pick = 8 // no direct store operations while the store is unreachable
			}
			switch pick {
			case 0, 1, 2, 3: // HTTP announce
				hc := httpCase{remoteAddr: p.remote(), maxnw: 100, defnw: 50, maxsc: 50}
				hc.uri = coherentURI(r, ih, p, left, evs[e], nw, r.Bool())
				if profile == "C03T" {
					hc.spoof = r.Bool()
					if r.Intn(3) == 0 { // dual-stack listener: an IPv4 client seen as ::ffff:a.b.c.d
						if len(p.ip) == 4 {
							hc.remoteAddr = fmt.Sprintf("[::ffff:%s]:40000", p.ip.String())
						}
					}
					if r.Intn(2) == 0 {
						other := []string{"10.0.0.9", "2001:db8::9", "::ffff:10.0.0.8", "::1", "0.0.0.0", "::", nearMappedV6[0], nearMappedV6[2]}[r.Intn(8)]
						hc.uri += "&" + []string{"ip", "ipv4", "ipv6"}[r.Intn(3)] + "=" + url.QueryEscape(other)
					}
				}
				if malformed {
					switch r.Intn(4) {
					case 0:
						hc.uri = rawURI(r)
					case 1:
						hc.uri = renderedAnnounce(r)
					case 2:
						hc.uri = hc.uri[:r.Intn(len(hc.uri)+1)]
					case 3:
						hc.remoteAddr = sampleRemotes[r.Intn(len(sampleRemotes))]
					}
				}
				trkHTTPAnnounce(c, hc, tc)
				c.Kind("http-announce")
			case 4, 5, 6: // UDP announce
				uc := udpCase{now: clock, skew: 10e9, maxnw: 100, defnw: 50, ms: 50}
				nwu := uint32(50)
				if nw >= 0 {
					nwu = uint32(nw)
				}
				coherentUDP(r, &uc, ih, p, left, evc[e], nwu)
				if profile == "C03T" {
					spoofUDP(r, &uc, ih, p, left, evc[e], nwu)
				}
				if malformed {
					switch r.Intn(4) {
					case 0:
						uc.pkt = uc.pkt[:16+r.Intn(len(uc.pkt)-15)]
					case 1:
						k := 8 + r.Intn(len(uc.pkt)-8)
						uc.pkt[k] ^= 1 << uint(r.Intn(8))
					case 2:
						uc.pkt = append(uc.pkt, encodeOptions(r, udpURLData[r.Intn(len(udpURLData))])...)
					case 3:
						g := r.Bytes(16 + r.Intn(150))
						copy(g, uc.pkt[:8])
						uc.pkt = g
					}
				}
				trkUDP(c, uc, tc)
				c.Kind("udp-announce")
			case 7: // HTTP scrape
				hc := httpCase{remoteAddr: p.remote(), maxnw: 100, defnw: 50, maxsc: 50}
				var q []string
				for k := 0; k < 1+r.Intn(3); k++ {
					q = append(q, "info_hash="+url.QueryEscape(string(ihs[r.Intn(len(ihs))])))
				}
				hc.uri = "/scrape?" + strings.Join(q, "&")
				if malformed {
					if r.Bool() {
						hc.uri = rawURI(r)
					} else {
						hc.remoteAddr = sampleRemotes[r.Intn(len(sampleRemotes))]
					}
				}
				trkHTTPScrape(c, hc, tc)
				c.Kind("http-scrape")
			case 8: // UDP scrape
				uc := udpCase{now: clock, skew: 10e9, maxnw: 100, defnw: 50, ms: 50, src: p.ip}
				pk := append(validConnID(uc, time.Second), 0, 0, 0, 2)
				pk = append(pk, r.Bytes(4)...)
				nih := 1 + r.Intn(3)
				if profile == "C09T" {
					uc.ms = []uint32{1, 2, 3, 50}[r.Intn(4)]
					nih = 1 + r.Intn(7)
				}
				for k := 0; k < nih; k++ {
					if profile == "C09T" && k > 0 && r.Intn(3) == 0 { // repeat an earlier infohash
						j := r.Intn(k)
						pk = append(pk, pk[16+20*j:36+20*j]...)
						continue
					}
					if profile == "C09T" && r.Intn(4) == 0 { // an unknown swarm
						pk = append(pk, r.Bytes(20)...)
						continue
					}
					pk = append(pk, ihs[r.Intn(len(ihs))]...)
				}
				if malformed {
					pk = append(pk, r.Bytes(1+r.Intn(19))...)
				}
				uc.pkt = pk
				trkUDP(c, uc, tc)
				c.Kind("udp-scrape")
			case 9:
				if kind == "redis" && (profile == "C13" || profile == "C12" || profile == "C09T") && r.Intn(2) == 0 {
					// Redis goes away for a few requests and comes back
					storeOp(c, "st.fail", map[string]string{"on": "1"})
					c.Kind("redis-down")
					downFor = 2 + r.Intn(4)
					break
				}
				clock += []int64{1e9, 5e9, 60e9}[r.Intn(3)]
				storeOp(c, "st.clock", map[string]string{"t": strconv.FormatInt(clock, 10)})
				if r.Intn(3) == 0 {
					storeOp(c, "st.gc", map[string]string{"cutoff": strconv.FormatInt(clock-int64(r.Intn(100))*1e9, 10), "inst": "0"})
				}
			}
			if downFor > 0 {
				downFor--
				if downFor == 0 {
					storeOp(c, "st.fail", map[string]string{"on": "0"})
				}
				continue // no dump while the store cannot be read
			}
			storeOp(c, "st.dump", map[string]string{})
		}
		if downFor > 0 {
			storeOp(c, "st.fail", map[string]string{"on": "0"})
			downFor = 0
		}
	}
}
