package main

// C18: real varinterval hook on (infohash, peer id) pairs, including generator states
// constructed by inverting xorshift so that the first / second draw is 0, 2^63-1, 2^63, 2^64-1.

import (
	"context"
	"encoding/binary"
	"fmt"
	"math"
	"math/big"
	"time"

	"github.com/chihaya/chihaya/bittorrent"
	"github.com/chihaya/chihaya/middleware/varinterval"
)

func init() { gens["C18"] = &Gen{Run: runC18, Replay: replayC18} }

// exact rational of a float32
func ratOf(p float32) (string, string) {
	if p != p { // NaN is no probability: written as 0/1 (nothing is "0 < NaN")
		return "0", "1"
	}
	if math.IsInf(float64(p), 0) {
		if p > 0 {
			return "2", "1"
		}
		return "-2", "1"
	}
	r := new(big.Rat).SetFloat64(float64(p))
	return r.Num().String(), r.Denom().String()
}

// hookOptionTable: varinterval options inside and outside their documented ranges (C20, C18)
func hookOptionTable(c *Ctx, r *Rng) {
	nan := math.Float32frombits(0x7fc00000)
	for _, p := range []float32{0, -0.5, 1, 1.0000001, 1.1, 0.5, 1e-30, 2, 3e38, -0.25, -1e30, -1e-30, float32(math.Copysign(0, -1)),
		nan, float32(math.Inf(1)), float32(math.Inf(-1)), -1, math.Float32frombits(0x80000001)} {
		for _, d := range []int{-10, -1, 0, 1, 60, math.MinInt64, math.MaxInt64, math.MaxInt32, math.MaxInt32 + 1, 9223372036, 10000000000} {
			viCheck(c, p, d, r.Bool())
		}
	}
}

func viHandle(c *Ctx, ih, pid []byte, p float32, delta int, mm bool, iv, miv time.Duration) {
	pn, pd := ratOf(p)
	op := fmt.Sprintf("vi.handle ih=%s pid=%s pn=%s pd=%s delta=%d mm=%s iv=%d miv=%d pbits=%d",
		hx(ih), hx(pid), pn, pd, delta, b01(mm), int64(iv), int64(miv), math.Float32bits(p))
	obs := func() (o string) {
		defer func() {
			if r := recover(); r != nil {
				o = "PANIC"
			}
		}()
		h, err := varinterval.NewHook(varinterval.Config{ModifyResponseProbability: p, MaxIncreaseDelta: delta, ModifyMinInterval: mm})
		if err != nil {
			return "refused"
		}
		req := &bittorrent.AnnounceRequest{InfoHash: bittorrent.InfoHashFromBytes(ih), Peer: bittorrent.Peer{ID: bittorrent.PeerIDFromBytes(pid)}}
		resp := &bittorrent.AnnounceResponse{Interval: iv, MinInterval: miv}
		if _, err := h.HandleAnnounce(context.Background(), req, resp); err != nil {
			return "error"
		}
		// determinism: a second evaluation must give the same answer
		resp2 := &bittorrent.AnnounceResponse{Interval: iv, MinInterval: miv}
		_, _ = h.HandleAnnounce(context.Background(), req, resp2)
		if resp2.Interval != resp.Interval || resp2.MinInterval != resp.MinInterval {
			return "NONDETERMINISTIC"
		}
		return fmt.Sprintf("iv=%d miv=%d", int64(resp.Interval), int64(resp.MinInterval))
	}()
	c.Emit(op, obs)
}

func viCheck(c *Ctx, p float32, delta int, mm bool) {
	pn, pd := ratOf(p)
	_, err := varinterval.NewHook(varinterval.Config{ModifyResponseProbability: p, MaxIncreaseDelta: delta, ModifyMinInterval: mm})
	obs := "ok"
	if err != nil {
		obs = "refused"
	}
	c.Emit(fmt.Sprintf("vi.check pn=%s pd=%s delta=%d mm=%s pbits=%d", pn, pd, delta, b01(mm), math.Float32bits(p)), obs)
}

// state20 builds a 20-byte id whose derived half-state (be64(b[0:8]) + be64(b[8:16])) is s.
func state20(r *Rng, s uint64) []byte {
	b := r.Bytes(20)
	hi := r.U64()
	if r.Bool() {
		hi = 0
	}
	binary.BigEndian.PutUint64(b[0:8], s-hi)
	binary.BigEndian.PutUint64(b[8:16], hi)
	return b
}

// invert xorshift128+ state update so that the second output equals target, for the given s1
func s0ForSecond(s1, target uint64) uint64 {
	y := target - s1 // required newS1
	z := y ^ s1 ^ (s1 >> 5)
	t := z ^ (z >> 18) ^ (z >> 36) ^ (z >> 54)
	return t ^ (t << 23) ^ (t << 46)
}

var edge64 = []uint64{0, 1, 1<<63 - 1, 1 << 63, 1<<63 + 1, 1<<64 - 1, 1 << 24, 1<<24 - 1, 1 << 32}

func replayC18(c *Ctx, op string, a map[string]string) {
	var pb uint32
	fmt.Sscan(a["pbits"], &pb)
	p := math.Float32frombits(pb)
	var delta int
	fmt.Sscan(a["delta"], &delta)
	mm := a["mm"] == "1"
	switch op {
	case "vi.handle":
		var iv, miv int64
		fmt.Sscan(a["iv"], &iv)
		fmt.Sscan(a["miv"], &miv)
		viHandle(c, unhx(a["ih"]), unhx(a["pid"]), p, delta, mm, time.Duration(iv), time.Duration(miv))
	case "vi.check":
		viCheck(c, p, delta, mm)
	}
}

func runC18(c *Ctx) {
	for _, l := range c.CorpusLines() {
		op, a := parseOp(l)
		replayC18(c, op, a)
	}
	r := c.R
	probs := []float32{1, 0.5, 0.25, 0.1, 0.999, 1e-7, 0.75, math.Float32frombits(0x3f7fffff) /* largest < 1 */, math.Float32frombits(1) /* smallest subnormal */}
	// up to the largest accepted delta; beyond it (refused since D29) the added seconds overflow time.Duration
	deltas := []int{1, 2, 60, 600, 3600, 1 << 24, 1<<31 - 1, 1 << 31, math.MaxInt64 / 2000000000, 10000000000, math.MaxInt64 / 2, math.MaxInt64}
	// configuration checks
	hookOptionTable(c, r)
	iv, miv := 30*time.Minute, 15*time.Minute
	// constructed generator states
	for _, first := range edge64 {
		for _, second := range edge64 {
			s1 := r.U64()
			// choose s0 so that the second draw is `second`; the first draw is then whatever s0+s1 is
			s0 := s0ForSecond(s1, second)
			viHandle(c, state20(r, s0), state20(r, s1), 1, deltas[r.Intn(len(deltas))], r.Bool(), iv, miv)
			c.Kind("second-edge")
			// first draw = first
			s1 = r.U64()
			viHandle(c, state20(r, first-s1), state20(r, s1), probs[r.Intn(len(probs))], deltas[r.Intn(len(deltas))], r.Bool(), iv, miv)
			c.Kind("first-edge")
		}
	}
	for i := 0; i < c.N; i++ {
		p := probs[r.Intn(len(probs))]
		if r.Intn(4) == 0 {
			p = math.Float32frombits(uint32(r.U64())%0x3f800000 + 1) // any float32 in (0,1)
		}
		d := deltas[r.Intn(len(deltas))]
		if r.Intn(3) == 0 {
			d = 1 + r.Intn(100000)
		}
		ih, pid := r.Bytes(20), r.Bytes(20)
		if r.Intn(5) == 0 {
			// make the first draw land next to the threshold p*2^24
			th := uint64(float64(p) * (1 << 24))
			target := th + uint64(r.Intn(3)) - 1
			s1 := r.U64()
			hiBits := r.U64() << 24
			ih, pid = state20(r, (hiBits|target&(1<<24-1))-s1), state20(r, s1)
			c.Kind("threshold")
		} else {
			c.Kind("random")
		}
		viHandle(c, ih, pid, p, d, r.Bool(), time.Duration(1+r.Intn(7200))*time.Second, time.Duration(r.Intn(3600))*time.Second)
	}
}
