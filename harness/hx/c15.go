package main

// C15: the real JWT hook against a loopback JWK endpoint, with RS256 tokens minted by the harness
// and exactly one aspect changed per case; key-set rotation histories.

import (
	"bytes"
	"context"
	"crypto"
	"crypto/hmac"
	"crypto/rand"
	"crypto/rsa"
	"crypto/sha256"
	"crypto/x509"
	"encoding/base64"
	"encoding/hex"
	"encoding/json"
	"errors"
	"fmt"
	"github.com/chihaya/chihaya/pkg/stop"
	"math/big"
	"net/http"
	"net/http/httptest"
	"sort"
	"strings"
	"sync"
	"sync/atomic"
	"time"

	"github.com/chihaya/chihaya/bittorrent"
	"github.com/chihaya/chihaya/middleware"
	jwthook "github.com/chihaya/chihaya/middleware/jwt"
)

// near misses of the configured issuer "https://issuer.example" and audience "chihaya"
var nearMiss = map[string]string{
	"aud:super": "chihaya-staging", "aud:sub": "chiha", "aud:case": "Chihaya", "aud:space": " chihaya", "aud:empty": "",
	"iss:super": "https://issuer.example.evil.test", "iss:sub": "https://issuer.exampl", "iss:case": "https://Issuer.example", "iss:space": "https://issuer.example ", "iss:empty": "",
}
var nearMissList = map[string][]string{"superlist": {"other", "not-chihaya.example"}, "joinlist": {"chi", "haya"}}

func init() { gens["C15"] = &Gen{Run: runC15, Replay: nil} }

type jwkServer struct {
	mu       sync.Mutex
	keys     map[string]*rsa.PrivateKey // published kid -> key
	srv      *httptest.Server
	broken   string        // "" | "garbage" | "500" | "503json" | "404json": what the endpoint answers instead of the key set
	extra    string        // "" | "okp" | "badrsa" | "both" | "null": entries published next to the RSA keys that the hook cannot use
	slow     time.Duration // answer only after this long (or when the client has gone away)
	inflight int32
}

func b64(b []byte) string { return base64.RawURLEncoding.EncodeToString(b) }

func (s *jwkServer) handler(w http.ResponseWriter, r *http.Request) {
	s.mu.Lock()
	slow := s.slow
	s.mu.Unlock()
	if slow > 0 {
		atomic.AddInt32(&s.inflight, 1)
		select {
		case <-time.After(slow):
		case <-r.Context().Done():
		}
		atomic.AddInt32(&s.inflight, -1)
	}
	s.mu.Lock()
	defer s.mu.Unlock()
	switch s.broken {
	case "garbage":
		_, _ = w.Write([]byte("{\"keys\": [not json"))
		return
	case "500":
		w.WriteHeader(500)
		_, _ = w.Write([]byte("upstream unavailable"))
		return
	case "503json", "404json":
		// an error answered in JSON (an API gateway's error page): decodable, but not a publication of a key set
		w.Header().Set("Content-Type", "application/json")
		if s.broken == "503json" {
			w.WriteHeader(503)
		} else {
			w.WriteHeader(404)
		}
		_, _ = w.Write([]byte(`{"error":"service unavailable","keys":[]}`))
		return
	}
	type jwk struct {
		Kty string `json:"kty"`
		Kid string `json:"kid"`
		N   string `json:"n,omitempty"`
		E   string `json:"e,omitempty"`
		Crv string `json:"crv,omitempty"`
		X   string `json:"x,omitempty"`
		Alg string `json:"alg,omitempty"`
		Use string `json:"use"`
	}
	var ks []jwk
	// a key set may publish keys of other types (RFC 8037 Ed25519 here) or an entry that does not decode: those are
	// not keys an RS256 token can be verified under; the RSA keys published next to them are (D34)
	if s.extra == "okp" || s.extra == "both" {
		ks = append(ks, jwk{Kty: "OKP", Kid: "kx", Crv: "Ed25519", X: "11qYAYKxCrfVS_7TyWQHOg7hcvPapiMlrwIaaPcHURo", Alg: "EdDSA", Use: "sig"})
	}
	if s.extra == "badrsa" || s.extra == "both" {
		ks = append(ks, jwk{Kty: "RSA", Kid: "kbad", N: "!!!", E: "AQAB", Alg: "RS256", Use: "sig"})
	}
	for kid, k := range s.keys {
		ks = append(ks, jwk{Kty: "RSA", Kid: kid, N: b64(k.N.Bytes()), E: b64(big.NewInt(int64(k.E)).Bytes()), Alg: "RS256", Use: "sig"})
	}
	if s.extra == "null" { // a null entry in the array (D39)
		l := []interface{}{nil}
		for _, k := range ks {
			l = append(l, k)
		}
		_ = json.NewEncoder(w).Encode(map[string]interface{}{"keys": append(l, nil)})
		return
	}
	_ = json.NewEncoder(w).Encode(map[string]interface{}{"keys": ks})
}

type paramsStub struct{ jwt *string }

func (p paramsStub) String(key string) (string, bool) {
	if key == "jwt" && p.jwt != nil {
		return *p.jwt, true
	}
	return "", false
}
func (p paramsStub) RawPath() string  { return "/announce" }
func (p paramsStub) RawQuery() string { return "" }

type tokSpec struct {
	present, garbage           bool
	iss, aud, ihc, kid         string // "ok" | "bad" | "absent" (aud also "list", ihc also "upper"/"nonstring", kid also "nonstring")
	alg                        string // RS256 | none | HS256 | RS512
	signWith                   int    // index of signing key
	corruptSig, corruptPayload bool
	exp, nbf                   string // absent | offset seconds
}

func signRS256(k *rsa.PrivateKey, input string) []byte {
	h := sha256.Sum256([]byte(input))
	sig, err := rsa.SignPKCS1v15(rand.Reader, k, crypto.SHA256, h[:])
	if err != nil {
		panic(err)
	}
	return sig
}

// jwt.lifecycle: the hook's own background loop (not the shim's synchronous refresh) and its Stop. The endpoint first
// publishes k0 only; a token signed by k1 is refused; k1 is published and nothing else is done: within a few update
// intervals the same token must be accepted. Stop must complete, the endpoint must see no further fetches afterwards
// (the loop has ended), and a second Stop must complete as well.
func jwtLifecycle(c *Ctx, keys []*rsa.PrivateKey) {
	op := "jwt.lifecycle interval_ms=60"
	c.Begin(op)
	obs := func() (o string) {
		defer func() {
			if p := recover(); p != nil {
				o = "PANIC " + strings.Fields(fmt.Sprint(p))[0]
			}
		}()
		js := &jwkServer{keys: map[string]*rsa.PrivateKey{"k0": keys[0]}}
		var fetches int32
		js.srv = httptest.NewServer(http.HandlerFunc(func(w http.ResponseWriter, r *http.Request) {
			atomic.AddInt32(&fetches, 1)
			js.handler(w, r)
		}))
		defer js.srv.Close()
		g0 := goroutinesOf("chihaya/middleware/jwt.")
		h, err := jwthook.NewHook(jwthook.Config{Issuer: "https://issuer.example", Audience: "chihaya", JWKSetURL: js.srv.URL, JWKUpdateInterval: 60 * time.Millisecond})
		if err != nil {
			return "new-failed"
		}
		ih := bytes.Repeat([]byte{7}, 20)
		hb, _ := json.Marshal(map[string]interface{}{"alg": "RS256", "typ": "JWT", "kid": "k1"})
		cb, _ := json.Marshal(map[string]interface{}{"iss": "https://issuer.example", "aud": "chihaya", "infohash": hex.EncodeToString(ih), "exp": time.Now().Unix() + 3600})
		input := b64(hb) + "." + b64(cb)
		tok := input + "." + b64(signRS256(keys[1], input))
		ask := func() string {
			req := &bittorrent.AnnounceRequest{InfoHash: bittorrent.InfoHashFromBytes(ih), Params: paramsStub{jwt: &tok}}
			_, err := h.HandleAnnounce(context.Background(), req, &bittorrent.AnnounceResponse{})
			return verdict(err)
		}
		before := ask()
		js.mu.Lock()
		js.keys["k1"] = keys[1]
		js.mu.Unlock()
		refreshed := false
		for i := 0; i < 150 && !refreshed; i++ {
			time.Sleep(20 * time.Millisecond)
			refreshed = ask() == "accept"
		}
		st, ok := h.(stop.Stopper)
		if !ok {
			return "hook-is-no-stopper"
		}
		// Stop while a fetch is in flight (the endpoint has become slow): Stop must still complete promptly, and when it
		// has, the hook's goroutine is gone — not finishing its fetch in the background
		js.mu.Lock()
		js.slow = 1500 * time.Millisecond
		js.mu.Unlock()
		for i := 0; i < 200 && atomic.LoadInt32(&js.inflight) == 0; i++ {
			time.Sleep(10 * time.Millisecond)
		}
		inflight := atomic.LoadInt32(&js.inflight) > 0
		t0 := time.Now()
		stopped, _ := waitStop(st.Stop(), 5*time.Second)
		prompt := time.Since(t0) < time.Second
		left := goroutinesLeft("chihaya/middleware/jwt.", g0)
		// a fetch that was in flight when Stop was called may still arrive (late, on a loaded machine): wait until the
		// count has stood still for a while, then watch it over ten update intervals
		n1 := atomic.LoadInt32(&fetches)
		for i := 0; i < 10; i++ {
			time.Sleep(300 * time.Millisecond)
			n := atomic.LoadInt32(&fetches)
			if n == n1 {
				break
			}
			n1 = n
		}
		time.Sleep(600 * time.Millisecond)
		n2 := atomic.LoadInt32(&fetches)
		second, _ := waitStop(st.Stop(), 3*time.Second)
		return fmt.Sprintf("before=%s refreshed_in_background=%s fetch_in_flight_at_stop=%s stopped=%s prompt=%s goroutines_left=%d quiet_after_stop=%s second_stop=%s", before, b01(refreshed), b01(inflight), b01(stopped), b01(prompt), left, b01(n1 == n2), b01(second))
	}()
	c.Emit(op, obs)
}

func runC15(c *Ctx) {
	r := c.R
	nKeys := 3
	var keys []*rsa.PrivateKey
	for i := 0; i < nKeys; i++ {
		k, err := rsa.GenerateKey(rand.Reader, 2048)
		if err != nil {
			panic(err)
		}
		keys = append(keys, k)
	}
	jwtLifecycle(c, keys)
	js := &jwkServer{keys: map[string]*rsa.PrivateKey{}}
	js.srv = httptest.NewServer(http.HandlerFunc(js.handler))
	defer js.srv.Close()
	published := map[string]int{"k0": 0, "k1": 1} // kid -> key index
	publish := func() {
		js.mu.Lock()
		js.keys = map[string]*rsa.PrivateKey{}
		for kid, i := range published {
			js.keys[kid] = keys[i]
		}
		js.mu.Unlock()
	}
	publish()
	h, err := jwthook.NewHook(jwthook.Config{Issuer: "https://issuer.example", Audience: "chihaya", JWKSetURL: js.srv.URL, JWKUpdateInterval: time.Hour})
	if err != nil {
		panic(err)
	}
	defer func() {
		if st, ok := h.(interface{ Stop() <-chan []error }); ok {
			_ = st
		}
	}()
	keysArg := func() string {
		var l []string
		for kid, i := range published {
			l = append(l, fmt.Sprintf("%s:%d", kid, i))
		}
		sort.Strings(l)
		if len(l) == 0 {
			return "-"
		}
		return strings.Join(l, ",")
	}
	ih := r.Bytes(20)
	mint := func(ts tokSpec) (string, map[string]string) {
		facts := map[string]string{"parses": "1", "iss": ts.iss, "aud": ts.aud, "ihc": ts.ihc, "kid": "absent", "alg": b01(ts.alg == "RS256"), "sig": "-1", "exp": ts.exp, "nbf": ts.nbf}
		if ts.garbage {
			facts["parses"] = "0"
			return []string{"", "garbage", "a.b", "a.b.c", "....", b64([]byte("{}")) + "." + b64([]byte("{}")) + "."}[r.Intn(6)], facts
		}
		hdr := map[string]interface{}{"alg": ts.alg, "typ": "JWT"}
		kidName := ""
		switch ts.kid {
		case "ok":
			kidName = fmt.Sprintf("k%d", ts.signWith)
			hdr["kid"] = kidName
		case "other": // a published kid that is not the signing key
			kidName = fmt.Sprintf("k%d", (ts.signWith+1)%2)
			hdr["kid"] = kidName
		case "bad":
			kidName = "nope"
			hdr["kid"] = kidName
		case "nonstring":
			hdr["kid"] = 7
		}
		if kidName != "" {
			facts["kid"] = kidName
		}
		cl := map[string]interface{}{}
		switch ts.iss {
		case "ok":
			cl["iss"] = "https://issuer.example"
		case "bad":
			cl["iss"] = "https://evil.example"
		default: // near misses: super-/sub-strings, case, surrounding space — all of them "not the issuer"
			if v, ok := nearMiss["iss:"+ts.iss]; ok {
				cl["iss"] = v
				facts["iss"] = "bad"
			}
		}
		switch ts.aud {
		case "ok":
			cl["aud"] = "chihaya"
		case "list":
			cl["aud"] = []string{"other", "chihaya"}
			facts["aud"] = "other+ok"
		case "bad":
			cl["aud"] = "someone-else"
		case "badlist":
			cl["aud"] = []string{"a", "b"}
			facts["aud"] = "a+b"
		default:
			if v, ok := nearMiss["aud:"+ts.aud]; ok {
				cl["aud"] = v
				facts["aud"] = "bad"
			} else if v, ok := nearMissList[ts.aud]; ok {
				cl["aud"] = v
				facts["aud"] = "a+b"
			}
		}
		switch ts.ihc {
		case "ok":
			cl["infohash"] = hex.EncodeToString(ih)
		case "bad":
			o := append([]byte{}, ih...)
			o[r.Intn(20)] ^= 1
			cl["infohash"] = hex.EncodeToString(o)
		case "upper":
			cl["infohash"] = strings.ToUpper(hex.EncodeToString(ih))
			if strings.ToUpper(hex.EncodeToString(ih)) != hex.EncodeToString(ih) {
				facts["ihc"] = "bad"
			} else {
				facts["ihc"] = "ok"
			}
		case "nonstring":
			cl["infohash"] = 42
			facts["ihc"] = "absent"
		}
		now := time.Now().Unix()
		// a claim value: seconds relative to now; or a form that is no NumericDate (D35): the number in quotes
		// ("str:<rel>"), a number beyond any time ("1e19", "2p63"), null
		claimTime := func(name, spec string) {
			switch {
			case spec == "absent":
			case strings.HasPrefix(spec, "str:"):
				var d int64
				fmt.Sscan(spec[4:], &d)
				cl[name] = fmt.Sprint(now + d)
				facts[name] = "malformed"
			case spec == "1e19":
				cl[name] = 1e19
				facts[name] = "malformed"
			case spec == "2p63":
				cl[name] = float64(1 << 63)
				facts[name] = "malformed"
			case spec == "null":
				cl[name] = nil
				facts[name] = "malformed"
			default:
				var d int64
				fmt.Sscan(spec, &d)
				cl[name] = now + d
			}
		}
		claimTime("exp", ts.exp)
		claimTime("nbf", ts.nbf)
		hb, _ := json.Marshal(hdr)
		cb, _ := json.Marshal(cl)
		input := b64(hb) + "." + b64(cb)
		var sig []byte
		switch ts.alg {
		case "RS256", "RS512":
			sig = signRS256(keys[ts.signWith], input) // RS512 header over an RS256 signature: algorithm mismatch
			if ts.alg == "RS256" {
				facts["sig"] = fmt.Sprint(ts.signWith)
			}
		case "HS256":
			// algorithm confusion: HMAC keyed with the public key bytes
			pub, _ := x509.MarshalPKIXPublicKey(&keys[ts.signWith].PublicKey)
			m := hmac.New(sha256.New, pub)
			m.Write([]byte(input))
			sig = m.Sum(nil)
		case "none":
			sig = nil
		}
		if ts.corruptSig && len(sig) > 0 {
			sig[r.Intn(len(sig))] ^= 1 << uint(r.Intn(8))
			facts["sig"] = "-1"
		}
		tok := input + "." + b64(sig)
		if ts.corruptPayload {
			// change the signed payload after signing: the signature no longer covers it
			cl["tampered"] = true
			cb2, _ := json.Marshal(cl)
			tok = b64(hb) + "." + b64(cb2) + "." + b64(sig)
			facts["sig"] = "-1"
		}
		return tok, facts
	}
	emit := func(ts tokSpec, why string) {
		var obs string
		op := "jwt.announce present=" + b01(ts.present) + " why=" + why + " keys=" + keysArg()
		if !ts.present {
			req := &bittorrent.AnnounceRequest{InfoHash: bittorrent.InfoHashFromBytes(ih), Params: paramsStub{}}
			_, err := h.HandleAnnounce(context.Background(), req, &bittorrent.AnnounceResponse{})
			obs = verdict(err)
		} else {
			tok, facts := mint(ts)
			var ks []string
			for k := range facts {
				ks = append(ks, k)
			}
			sort.Strings(ks)
			for _, k := range ks {
				op += " " + k + "=" + facts[k]
			}
			req := &bittorrent.AnnounceRequest{InfoHash: bittorrent.InfoHashFromBytes(ih), Params: paramsStub{jwt: &tok}}
			obs = func() (o string) {
				defer func() {
					if p := recover(); p != nil {
						o = "PANIC"
					}
				}()
				_, err := h.HandleAnnounce(context.Background(), req, &bittorrent.AnnounceResponse{})
				return verdict(err)
			}()
		}
		c.Emit(op, obs)
		c.Kind(why)
	}
	base := func() tokSpec {
		return tokSpec{present: true, iss: "ok", aud: "ok", ihc: "ok", kid: "ok", alg: "RS256", signWith: r.Intn(2), exp: "3600", nbf: "-3600"}
	}
	n := c.N
	for i := 0; i < n; i++ {
		ts := base()
		why := "valid"
		switch r.Intn(32) {
		case 30, 31:
			// a refresh that fails (endpoint down, garbage, undecodable key) must leave the installed keys alone
			js.mu.Lock()
			js.broken = []string{"garbage", "500", "503json", "404json"}[r.Intn(4)]
			js.mu.Unlock()
			ferr := jwthook.VerifUpdateKeys(h)
			js.mu.Lock()
			js.broken = ""
			js.mu.Unlock()
			if ferr == nil {
				c.Emit("jwt.refresh_failed", "NO-ERROR")
			}
			ts.signWith = r.Intn(3)
			why = "after-failed-refresh"
		case 26:
			ts.aud = []string{"super", "sub", "case", "space", "empty"}[r.Intn(5)]
			why = "aud-near-miss-" + ts.aud
		case 27:
			ts.aud = []string{"superlist", "joinlist"}[r.Intn(2)]
			why = "aud-near-miss-" + ts.aud
		case 28, 29:
			ts.iss = []string{"super", "sub", "case", "space", "empty"}[r.Intn(5)]
			why = "iss-near-miss-" + ts.iss
		case 0:
			ts.present, why = false, "missing"
		case 1:
			ts.garbage, why = true, "garbage"
		case 2:
			ts.iss, why = "bad", "iss-bad"
		case 3:
			ts.iss, why = "absent", "iss-absent"
		case 4:
			ts.aud, why = "bad", "aud-bad"
		case 5:
			ts.aud, why = "absent", "aud-absent"
		case 6:
			ts.aud, why = "list", "aud-list"
		case 7:
			ts.aud, why = "badlist", "aud-badlist"
		case 8:
			ts.ihc, why = "bad", "infohash-bad"
		case 9:
			ts.ihc, why = "absent", "infohash-absent"
		case 10:
			ts.ihc, why = "upper", "infohash-upper"
		case 11:
			ts.ihc, why = "nonstring", "infohash-nonstring"
		case 12:
			ts.kid, why = "bad", "kid-unknown"
		case 13:
			ts.kid, why = "absent", "kid-absent"
		case 14:
			ts.kid, why = "nonstring", "kid-nonstring"
		case 15:
			ts.kid, why = "other", "kid-other-key"
		case 16:
			ts.alg, why = "none", "alg-none"
		case 17:
			ts.alg, why = "HS256", "alg-hs256-confusion"
		case 18:
			ts.corruptSig, why = true, "sig-bitflip"
		case 19:
			ts.corruptPayload, why = true, "payload-tampered"
		case 20:
			ts.exp, why = []string{"-5", "-3600", "-86400"}[r.Intn(3)], "expired"
		case 21:
			ts.nbf, why = []string{"5", "3600"}[r.Intn(2)], "not-yet-valid"
		case 22:
			ts.exp, ts.nbf, why = "absent", "absent", "no-exp-nbf"
			if r.Intn(2) == 0 { // the single aspect changed is the *form* of exp or nbf: in quotes, beyond any time, null
				ts = base()
				form := []string{"str:3600", "str:-60", "str:-1700000000", "1e19", "2p63", "null"}[r.Intn(6)]
				if r.Bool() {
					ts.exp, why = form, "exp-malformed"
				} else {
					if form == "str:3600" {
						form = "str:99999999"
					}
					ts.nbf, why = form, "nbf-malformed"
				}
			}
		case 23:
			ts.signWith, why = 2, "signed-by-unpublished-key"
			ts.kid = "ok" // kid k2, not in the published set
		case 24:
			// rotation: publish a different set, refresh, then validate tokens against the new set
			if r.Bool() {
				published = map[string]int{"k0": 0, "k1": 1}
			} else {
				published = map[string]int{"k0": 1, "k1": 0, "k2": 2} // kids re-bound to other keys
			}
			publish()
			js.mu.Lock()
			js.extra = []string{"", "", "okp", "badrsa", "both", "null"}[r.Intn(6)]
			extra := js.extra
			js.mu.Unlock()
			rotOp := "jwt.rotation extra=" + map[string]string{"": "-"}[extra] + extra + " keys=" + keysArg()
			c.Begin(rotOp) // a refresh that brings the process down is reported with this case in flight
			rerr := jwthook.VerifUpdateKeys(h)
			c.Emit("jwt.rotation extra="+map[string]string{"": "-"}[extra]+extra+" keys="+keysArg(), map[bool]string{true: "published", false: "REFRESH-FAILED"}[rerr == nil])
			ts.signWith = r.Intn(3)
			why = "after-rotation"
			if _, ok := published[fmt.Sprintf("k%d", ts.signWith)]; !ok {
				why = "after-rotation-retired-key"
			}
		case 25:
			ts.alg, why = "RS512", "alg-mismatch"
		}
		// kid "ok" means header kid = k<signWith>; whether that kid maps to the signing key depends on the published set
		emit(ts, why)
	}
	// the same token before and after its expiry (and before and after its not-before time): validity is judged at
	// every announce, an earlier acceptance or refusal does not stick
	{
		present := func(tok string, facts map[string]string, why string) {
			op := "jwt.announce present=1 why=" + why + " keys=" + keysArg()
			var ks []string
			for k := range facts {
				ks = append(ks, k)
			}
			sort.Strings(ks)
			for _, k := range ks {
				op += " " + k + "=" + facts[k]
			}
			req := &bittorrent.AnnounceRequest{InfoHash: bittorrent.InfoHashFromBytes(ih), Params: paramsStub{jwt: &tok}}
			_, err := h.HandleAnnounce(context.Background(), req, &bittorrent.AnnounceResponse{})
			c.Emit(op, verdict(err))
		}
		ts := base()
		ts.signWith = 0
		published = map[string]int{"k0": 0, "k1": 1}
		publish()
		_ = jwthook.VerifUpdateKeys(h)
		ts.exp = "2"
		tok, facts := mint(ts)
		present(tok, facts, "short-lived-first")
		present(tok, facts, "short-lived-again")
		ts2 := base()
		ts2.signWith = 1
		ts2.nbf = "3"
		tok2, facts2 := mint(ts2)
		present(tok2, facts2, "not-yet-valid-first")
		time.Sleep(4 * time.Second)
		facts["exp"] = "-2"
		present(tok, facts, "short-lived-after-expiry")
		facts2["nbf"] = "-1"
		present(tok2, facts2, "valid-now")
	}
	// scrapes are never blocked
	_, err = h.HandleScrape(context.Background(), &bittorrent.ScrapeRequest{}, &bittorrent.ScrapeResponse{})
	c.Emit("jwt.scrape", verdict(err))
}

func verdict(err error) string {
	switch {
	case err == nil:
		return "accept"
	case errors.Is(err, jwthook.ErrMissingJWT):
		return "missing"
	case errors.Is(err, jwthook.ErrInvalidJWT):
		return "invalid"
	}
	return "other-error"
}

var _ middleware.Hook
