package main

// life.http_late: Stop against a burst of announces arriving on idle kept-alive connections (D36). http.Server.Shutdown
// closes every connection that is idle at the instant it looks and stops waiting for it; a kept-alive connection stays
// "idle" until net/http has read the whole next request, and a request that arrives just then is handed to the handler
// all the same, on a connection Shutdown has written off. When Stop has completed no announce may be inside the tracker
// logic, and no post-response hook may start afterwards. (Scenario after the third audit's demonstration.)

import (
	"bufio"
	"context"
	"errors"
	"fmt"
	"net"
	"net/http"
	"os"
	"strings"
	"sync"
	"sync/atomic"
	"time"

	"github.com/chihaya/chihaya/bittorrent"
	httpfe "github.com/chihaya/chihaya/frontend/http"
)

type lateLogic struct {
	mu      sync.Mutex
	entered map[uint16]bool
	gates   map[uint16]chan struct{}
	held    int32 // second-round announces inside HandleAnnounce
	after   int32 // post-response hooks started
}

func (l *lateLogic) HandleAnnounce(ctx context.Context, req *bittorrent.AnnounceRequest) (context.Context, *bittorrent.AnnounceResponse, error) {
	if req.Left == 2 {
		atomic.AddInt32(&l.held, 1)
		l.mu.Lock()
		l.entered[req.Port] = true
		gate := l.gates[req.Port]
		l.mu.Unlock()
		<-gate
		atomic.AddInt32(&l.held, -1)
	}
	return ctx, &bittorrent.AnnounceResponse{Interval: time.Minute, MinInterval: time.Minute, Compact: true}, nil
}
func (l *lateLogic) AfterAnnounce(context.Context, *bittorrent.AnnounceRequest, *bittorrent.AnnounceResponse) {
	atomic.AddInt32(&l.after, 1)
}
func (l *lateLogic) HandleScrape(ctx context.Context, _ *bittorrent.ScrapeRequest) (context.Context, *bittorrent.ScrapeResponse, error) {
	return ctx, &bittorrent.ScrapeResponse{}, nil
}
func (l *lateLogic) AfterScrape(context.Context, *bittorrent.ScrapeRequest, *bittorrent.ScrapeResponse) {
}

func lateAnnounce(addr string, port, left int) []byte {
	return []byte(fmt.Sprintf("GET /announce?info_hash=01234567890123456789&peer_id=ABCDEFGHIJKLMNOPQRST&port=%d&left=%d&downloaded=0&uploaded=0&compact=1 HTTP/1.1\r\nHost: %s\r\n\r\n", port, left, addr))
}

// one attempt: (announces inside the logic when Stop had completed, post-hooks started after Stop, ok)
func lateAttempt(r *Rng, conns int) (int32, int32, string) {
	addr := fmt.Sprintf("127.0.0.1:%d", freePort())
	logic := &lateLogic{entered: map[uint16]bool{}, gates: map[uint16]chan struct{}{}}
	for i := 0; i < conns; i++ {
		logic.gates[uint16(1000+i)] = make(chan struct{})
	}
	f, err := httpfe.NewFrontend(logic, httpfe.Config{Addr: addr, EnableKeepAlive: true, ReadTimeout: 30 * time.Second, WriteTimeout: 30 * time.Second,
		IdleTimeout: 30 * time.Second, AnnounceRoutes: []string{"/announce"}, ScrapeRoutes: []string{"/scrape"}})
	if err != nil {
		return 0, 0, "refused"
	}
	cs := make([]net.Conn, conns)
	rs := make([]*bufio.Reader, conns)
	defer func() {
		for _, c := range cs {
			if c != nil {
				c.Close()
			}
		}
	}()
	for i := range cs {
		var c net.Conn
		for k := 0; k < 50; k++ {
			if c, err = net.Dial("tcp", addr); err == nil {
				break
			}
			time.Sleep(10 * time.Millisecond)
		}
		if err != nil {
			waitStop(f.Stop(), 5*time.Second)
			return 0, 0, "no-connection"
		}
		cs[i], rs[i] = c, bufio.NewReader(c)
		_, _ = c.Write(lateAnnounce(addr, 1000+i, 1))
	}
	for i := range cs {
		_ = cs[i].SetReadDeadline(time.Now().Add(5 * time.Second))
		resp, err := http.ReadResponse(rs[i], nil)
		if err != nil {
			waitStop(f.Stop(), 5*time.Second)
			return 0, 0, "first-round-failed"
		}
		buf := make([]byte, 4096)
		for {
			if _, err := resp.Body.Read(buf); err != nil {
				break
			}
		}
		resp.Body.Close()
		_ = cs[i].SetReadDeadline(time.Time{})
	}
	time.Sleep(20 * time.Millisecond) // every connection is idle now
	start := make(chan struct{})
	var sent sync.WaitGroup
	const writers = 8
	for w := 0; w < writers; w++ {
		sent.Add(1)
		go func(w int) {
			defer sent.Done()
			<-start
			for i := w; i < conns; i += writers {
				_, _ = cs[i].Write(lateAnnounce(addr, 1000+i, 2))
			}
		}(w)
	}
	delay := time.Duration(r.Intn(400)) * time.Microsecond
	close(start)
	time.Sleep(delay)
	stopped := make(chan struct{})
	go func() { f.Stop().Wait(); close(stopped) }()
	sent.Wait()
	// the connections the server has kept open carry the announces Shutdown waits for: let those go on
	open := make([]bool, conns)
	var cl sync.WaitGroup
	for i := range cs {
		cl.Add(1)
		go func(i int) {
			defer cl.Done()
			_ = cs[i].SetReadDeadline(time.Now().Add(300 * time.Millisecond))
			_, err := rs[i].Peek(1)
			open[i] = errors.Is(err, os.ErrDeadlineExceeded)
		}(i)
	}
	cl.Wait()
	for i := range cs {
		if open[i] {
			close(logic.gates[uint16(1000+i)])
		}
	}
	select {
	case <-stopped:
	case <-time.After(20 * time.Second):
		for i := range cs {
			if !open[i] {
				close(logic.gates[uint16(1000+i)])
			}
		}
		return 0, 0, "stop-did-not-complete"
	}
	inFlight := atomic.LoadInt32(&logic.held)
	afterBefore := atomic.LoadInt32(&logic.after)
	for i := range cs {
		if !open[i] {
			close(logic.gates[uint16(1000+i)])
		}
	}
	time.Sleep(150 * time.Millisecond)
	return inFlight, atomic.LoadInt32(&logic.after) - afterBefore, "ok"
}

func lifeHTTPLate(c *Ctx, attempts, conns int) {
	op := fmt.Sprintf("life.http_late attempts=%d conns=%d", attempts, conns)
	c.Begin(op)
	g0 := goroutinesOf("chihaya/frontend/http")
	defer func() { // let the connections' goroutines of the last attempt go before the next scenario takes its baseline
		for i := 0; i < 200 && goroutinesOf("chihaya/frontend/http") > g0; i++ {
			time.Sleep(10 * time.Millisecond)
		}
	}()
	obs := func() (o string) {
		defer func() {
			if p := recover(); p != nil {
				o = "PANIC " + strings.Fields(fmt.Sprint(p))[0]
			}
		}()
		var inFlight, lateHooks int32
		conclusive := 0
		for a := 0; a < attempts; a++ {
			c.Touch()
			n, h, st := lateAttempt(c.R, conns)
			if st == "no-connection" || st == "first-round-failed" {
				continue // the machine did not get the 300 idle connections up in time: nothing learnt from this attempt
			}
			if st != "ok" {
				return st
			}
			conclusive++
			inFlight += n
			lateHooks += h
			if n > 0 || h > 0 {
				break
			}
		}
		if conclusive == 0 {
			return "no-conclusive-attempt"
		}
		return fmt.Sprintf("in_flight_when_stop_completed=%d post_hooks_started_after_stop=%d", inFlight, lateHooks)
	}()
	c.Emit(op, obs)
}
