package main

// Shared infrastructure for the UDP streams (C07, C09, C10, C11-UDP): a non-serving real
// Frontend (overlay shim), a spy TrackerLogic, a pinned clock, and the `udp.handle` operation.

import (
	"bytes"
	"context"
	"crypto/hmac"
	"crypto/sha256"
	"encoding/binary"
	"errors"
	"fmt"
	"net"
	"net/http/httptest"
	"runtime"
	"sort"
	"strconv"
	"strings"
	"sync"
	"time"

	abencode "github.com/anacrolix/torrent/bencode"
	"github.com/chihaya/chihaya/bittorrent"
	httpfe "github.com/chihaya/chihaya/frontend/http"
	udpfe "github.com/chihaya/chihaya/frontend/udp"
	"github.com/chihaya/chihaya/pkg/timecache"
)

const udpKey = "verif-private-key"

// The message each frontend shows for a failure that is not the client's fault is learned from the real
// WriteError (twice, with different internal errors: it must not depend on them). Every other message is
// client-facing. (Earlier versions scraped ClientError("…") literals from the source, which broke on a
// harmless rewrite that builds a message by concatenation.)
var fixedInternalUDP, fixedInternalHTTP = func() (string, string) {
	u := func(e error) string {
		var b bytes.Buffer
		udpfe.WriteError(&b, []byte{0, 0, 0, 0}, e)
		if b.Len() < 8 {
			return "\x00none"
		}
		return strings.TrimSuffix(string(b.Bytes()[8:]), "\x00")
	}
	h := func(e error) string {
		w := httptest.NewRecorder()
		_ = httpfe.WriteError(w, e)
		var v map[string]interface{}
		if err := abencode.Unmarshal(w.Body.Bytes(), &v); err != nil {
			return "\x00none"
		}
		m, _ := v["failure reason"].(string)
		return m
	}
	ua, ub := u(errors.New("probe-internal-A")), u(fmt.Errorf("probe-internal-B %d", 7))
	ha, hb := h(errors.New("probe-internal-A")), h(fmt.Errorf("probe-internal-B %d", 7))
	if ua != ub {
		ua = "\x00varies"
	}
	if ha != hb {
		ha = "\x00varies"
	}
	return ua, ha
}()

func isClientMsgUDP(msg string) bool {
	return msg != fixedInternalUDP && !strings.Contains(msg, "probe-internal")
}
func isClientMsgHTTP(msg string) bool {
	return msg != fixedInternalHTTP && !strings.Contains(msg, "probe-internal")
}

const injectedClientMsg = "injected client error"

type spyLogic struct {
	mu         sync.Mutex
	kind       string // ok | client | internal
	token      string
	annResp    bittorrent.AnnounceResponse
	c0, s0, i0 uint32
	call       string
	annReq     *bittorrent.AnnounceRequest
	after      chan struct{}
}

func (s *spyLogic) err() error {
	if s.kind == "client" {
		return bittorrent.ClientError(injectedClientMsg)
	}
	if s.kind == "wrapped" { // a client error wrapped with internal context: the client sees the client part only
		return fmt.Errorf("backend 10.0.0.5:6379 shard 3 %s: %w", s.token, fmt.Errorf("hook: %w", bittorrent.ClientError(injectedClientMsg)))
	}
	return errors.New("dial tcp 10.0.0.5:6379: " + s.token)
}

func (s *spyLogic) HandleAnnounce(ctx context.Context, req *bittorrent.AnnounceRequest) (context.Context, *bittorrent.AnnounceResponse, error) {
	s.mu.Lock()
	defer s.mu.Unlock()
	cp := *req
	s.annReq = &cp
	s.call = "ann"
	if s.kind != "ok" {
		return nil, nil, s.err()
	}
	r := s.annResp
	return ctx, &r, nil
}
func (s *spyLogic) AfterAnnounce(context.Context, *bittorrent.AnnounceRequest, *bittorrent.AnnounceResponse) {
	s.after <- struct{}{}
}
func (s *spyLogic) HandleScrape(ctx context.Context, req *bittorrent.ScrapeRequest) (context.Context, *bittorrent.ScrapeResponse, error) {
	s.mu.Lock()
	defer s.mu.Unlock()
	var l []string
	for _, ih := range req.InfoHashes {
		l = append(l, hx(ih[:]))
	}
	ihs := "-"
	if len(l) > 0 {
		ihs = strings.Join(l, ",")
	}
	s.call = "scr fam=" + famStr(req.AddressFamily) + " ihs=" + ihs
	if s.kind != "ok" {
		return nil, nil, s.err()
	}
	resp := &bittorrent.ScrapeResponse{}
	for i, ih := range req.InfoHashes {
		resp.Files = append(resp.Files, bittorrent.Scrape{InfoHash: ih, Complete: s.c0 + uint32(i), Snatches: s.s0 + 3*uint32(i), Incomplete: s.i0 + 7*uint32(i)})
	}
	return ctx, resp, nil
}
func (s *spyLogic) AfterScrape(context.Context, *bittorrent.ScrapeRequest, *bittorrent.ScrapeResponse) {
	s.after <- struct{}{}
}

type udpCase struct {
	pkt              []byte
	src              net.IP
	now              int64 // ns
	skew             int64 // ns
	spoof            bool
	maxnw, defnw, ms uint32
	logic            string // ok|client|internal
	interval         int64
	complete, incomp uint32
	p4, p6           [][]byte // address (4 or 16 bytes, either form in p4) ++ 2-byte port
	p4gen, p6gen     int      // that many generated peers on top (genPeer)
	c0, s0, i0       uint32
	probes           []string
	urlData          string // only used to compute lowmap
}

type udpRig struct {
	fe     *udpfe.Frontend
	spy    *spyLogic
	client *net.UDPConn
	cfgKey string
}

var udpRigs = map[string]*udpRig{}

func getRig(uc udpCase) *udpRig {
	k := fmt.Sprintf("%v/%d/%d/%d/%d", uc.spoof, uc.maxnw, uc.defnw, uc.ms, uc.skew)
	if r, ok := udpRigs[k]; ok {
		return r
	}
	if len(udpRigs) > 64 {
		for kk, r := range udpRigs {
			r.fe.VerifClose()
			r.client.Close()
			delete(udpRigs, kk)
		}
	}
	spy := &spyLogic{after: make(chan struct{}, 16)}
	fe, err := udpfe.VerifNewFrontend(spy, udpfe.Config{PrivateKey: udpKey, MaxClockSkew: time.Duration(uc.skew),
		ParseOptions: udpfe.ParseOptions{AllowIPSpoofing: uc.spoof, MaxNumWant: uc.maxnw, DefaultNumWant: uc.defnw, MaxScrapeInfoHashes: uc.ms}})
	if err != nil {
		panic(err)
	}
	cl, err := net.ListenUDP("udp", &net.UDPAddr{IP: net.IPv4(127, 0, 0, 1)})
	if err != nil {
		panic(err)
	}
	r := &udpRig{fe: fe, spy: spy, client: cl, cfgKey: k}
	udpRigs[k] = r
	return r
}

func macTag(key string, msg []byte) []byte {
	m := hmac.New(sha256.New, []byte(key))
	m.Write(msg)
	return m.Sum(nil)[:4]
}

func peerList(ps [][]byte) string {
	if len(ps) == 0 {
		return "-"
	}
	l := make([]string, len(ps))
	for i, p := range ps {
		l[i] = hx(p)
	}
	return strings.Join(l, ",")
}

func toPeers(ps [][]byte, gen int, af bittorrent.AddressFamily) []bittorrent.Peer {
	var out []bittorrent.Peer
	for _, p := range ps {
		n := len(p) - 2
		out = append(out, bittorrent.Peer{IP: bittorrent.IP{IP: append(net.IP{}, p[:n]...), AddressFamily: af}, Port: binary.BigEndian.Uint16(p[n:])})
	}
	for i := 0; i < gen; i++ {
		p := genPeer(i, af == bittorrent.IPv6)
		n := len(p) - 2
		out = append(out, bittorrent.Peer{IP: bittorrent.IP{IP: append(net.IP{}, p[:n]...), AddressFamily: af}, Port: binary.BigEndian.Uint16(p[n:])})
	}
	return out
}

// genPeer: the i-th generated peer (the model's DUdp.genPeer): 10.x.y.z resp. 2001:db8::x:y:z, port i mod 65535 + 1
func genPeer(i int, v6 bool) []byte {
	port := uint16(i%65535 + 1)
	if v6 {
		return []byte{0x20, 0x01, 0x0d, 0xb8, 0, 0, 0, 0, 0, 0, 0, 0, 0, byte(i >> 16), byte(i >> 8), byte(i), byte(port >> 8), byte(port)}
	}
	return []byte{10, byte(i >> 16), byte(i >> 8), byte(i), byte(port >> 8), byte(port)}
}

func lowmapOf(urlData string) string {
	q := urlData
	if i := strings.IndexByte(q, '?'); i >= 0 {
		q = q[i+1:]
	} else {
		q = ""
	}
	m := map[string]string{}
	for _, seg := range strings.FieldsFunc(q, func(r rune) bool { return r == '&' || r == ';' }) {
		k := seg
		if i := strings.IndexByte(seg, '='); i >= 0 {
			k = seg[:i]
		}
		if uk, err := queryUnescape(k); err == nil {
			for i := 0; i < len(uk); i++ {
				if uk[i] >= 0x80 {
					m[hx([]byte(uk))] = hx([]byte(strings.ToLower(uk)))
					break
				}
			}
		}
	}
	if len(m) == 0 {
		return "-"
	}
	var ks []string
	for k := range m {
		ks = append(ks, k)
	}
	sort.Strings(ks)
	var p []string
	for _, k := range ks {
		p = append(p, k+":"+m[k])
	}
	return strings.Join(p, ",")
}

// urlDataOf reassembles BEP 41 URL data from the option area the way a client would read it
// (only used to tell the model how Go lower-cases non-ASCII keys).
func urlDataOf(opt []byte) string {
	var sb strings.Builder
	for i := 0; i < len(opt); {
		switch opt[i] {
		case 0:
			return sb.String()
		case 1:
			i++
		case 2:
			if i+1 >= len(opt) {
				return sb.String()
			}
			n := int(opt[i+1])
			if i+2+n > len(opt) {
				return sb.String()
			}
			sb.Write(opt[i+2 : i+2+n])
			i += 2 + n
		default:
			return sb.String()
		}
	}
	return sb.String()
}

func udpHandle(c *Ctx, uc udpCase) {
	rig := getRig(uc)
	spy := rig.spy
	spy.mu.Lock()
	spy.kind, spy.token = uc.logic, fmt.Sprintf("SECRET%d", c.Count)
	spy.annResp = bittorrent.AnnounceResponse{Interval: time.Duration(uc.interval), Complete: uc.complete, Incomplete: uc.incomp,
		IPv4Peers: toPeers(uc.p4, uc.p4gen, bittorrent.IPv4), IPv6Peers: toPeers(uc.p6, uc.p6gen, bittorrent.IPv6)}
	spy.c0, spy.s0, spy.i0 = uc.c0, uc.s0, uc.i0
	spy.call, spy.annReq = "", nil
	spy.mu.Unlock()
	for len(spy.after) > 0 {
		<-spy.after
	}
	timecache.VerifSetClock(uc.now)

	var tag, gtag []byte
	if len(uc.pkt) >= 4 {
		tag = macTag(udpKey, append(append([]byte{}, uc.pkt[:4]...), uc.src...))
	} else {
		tag = []byte{0, 0, 0, 0}
	}
	var ts [4]byte
	binary.BigEndian.PutUint32(ts[:], uint32(time.Unix(0, uc.now).Unix()))
	gtag = macTag(udpKey, append(ts[:], uc.src...))
	optArea := []byte{}
	if len(uc.pkt) >= 16 {
		act := binary.BigEndian.Uint32(uc.pkt[8:12])
		off := 98
		if act == 4 {
			off = 110
		}
		if len(uc.pkt) > off {
			optArea = uc.pkt[off:]
		}
	}
	probes := "-"
	if len(uc.probes) > 0 {
		var l []string
		for _, p := range uc.probes {
			l = append(l, hx([]byte(p)))
		}
		probes = strings.Join(l, ",")
	}
	op := fmt.Sprintf("udp.handle pkt=%s src=%s now=%d skew=%d spoof=%s maxnw=%d defnw=%d maxscrape=%d tag=%s gtag=%s logic=%s interval=%d complete=%d incomplete=%d p4=%s p6=%s p4gen=%d p6gen=%d c0=%d s0=%d i0=%d probe=%s lowmap=%s",
		hx(uc.pkt), hx(uc.src), uc.now, uc.skew, b01(uc.spoof), uc.maxnw, uc.defnw, uc.ms, hx(tag), hx(gtag), uc.logic, uc.interval, uc.complete, uc.incomp,
		peerList(uc.p4), peerList(uc.p6), uc.p4gen, uc.p6gen, uc.c0, uc.s0, uc.i0, probes, lowmapOf(urlDataOf(optArea)))

	obs := func() (o string) {
		defer func() {
			if p := recover(); p != nil {
				o = "PANIC"
			}
		}()
		pkt := append([]byte{}, uc.pkt...)
		src := append(net.IP{}, uc.src...)
		if len(uc.src) == 0 {
			src = nil
		}
		_ = rig.fe.VerifHandle(pkt, src, rig.client.LocalAddr().(*net.UDPAddr))
		// everything that arrives before the sentinel is the response
		rig.fe.VerifSentinel(rig.client.LocalAddr().(*net.UDPAddr))
		var dgrams [][]byte
		buf := make([]byte, 65536)
		for {
			_ = rig.client.SetReadDeadline(time.Now().Add(3 * time.Second))
			n, _, err := rig.client.ReadFromUDP(buf)
			if err != nil {
				return "SENTINEL-LOST"
			}
			if string(buf[:n]) == "\xffVERIF-SENTINEL\xff" {
				break
			}
			dgrams = append(dgrams, append([]byte{}, buf[:n]...))
		}
		if len(dgrams) > 1 {
			return fmt.Sprintf("TWO-DATAGRAMS %d", len(dgrams))
		}
		out := "silent"
		tx := []byte{}
		if len(uc.pkt) >= 16 {
			tx = uc.pkt[12:16]
		}
		if len(dgrams) == 1 {
			d := dgrams[0]
			n := len(d)
			if n >= 8 && binary.BigEndian.Uint32(d[:4]) == 3 {
				msg := d[8:]
				nul := len(msg) > 0 && msg[len(msg)-1] == 0
				if nul {
					msg = msg[:len(msg)-1]
				}
				spy.mu.Lock()
				token, kind, called := spy.token, spy.kind, spy.call != ""
				spy.mu.Unlock()
				cls := "other(" + hx(msg) + ")"
				switch {
				case strings.Contains(string(msg), token) || strings.Contains(string(msg), "10.0.0.5"):
					cls = "LEAK"
				case called && (kind == "client" || kind == "wrapped") && string(msg) == injectedClientMsg:
					cls = "client"
				case called && kind == "internal":
					cls = "internal"
				case !called && isClientMsgUDP(string(msg)):
					cls = "client"
				}
				out = "error tx=" + hx(d[4:8]) + " cls=" + cls + " nul=" + b01(nul)
				_ = tx
			} else {
				out = "dgram=" + hx(d)
			}
		}
		spy.mu.Lock()
		call, req := spy.call, spy.annReq
		spy.mu.Unlock()
		callStr := "call=-"
		if call == "ann" {
			var pv []string
			for _, p := range uc.probes {
				if v, ok := req.Params.String(p); ok {
					pv = append(pv, hx([]byte(v)))
				} else {
					pv = append(pv, "~")
				}
			}
			pvs := "-"
			if len(pv) > 0 {
				pvs = strings.Join(pv, ",")
			}
			callStr = "call=ann " + showAnnReq(req) + " pv=" + pvs
		} else if call != "" {
			callStr = "call=" + call
		}
		after := false
		wait := 200 * time.Microsecond
		if call != "" && uc.logic == "ok" {
			wait = 3 * time.Second // the post-hook goroutine is expected: give it all the time a loaded machine may need
		} else {
			runtime.Gosched()
		}
		select {
		case <-spy.after:
			after = true
		case <-time.After(wait):
		}
		return out + " " + callStr + " after=" + b01(after)
	}()
	c.Emit(op, obs)
}

func queryUnescape(s string) (string, error) {
	// same function the repository calls; external to the code under test
	return urlQueryUnescape(s)
}

// ---- packet builders (client side, written from BEP 15 / BEP 41) ----------------------------

type annFields struct {
	connID       []byte
	action       uint32
	tx           []byte
	ih, pid      []byte
	dl, left, ul uint64
	event        uint32
	ipField      []byte // 4 or 16 bytes
	key          uint32
	numWant      uint32
	port         uint16
	options      []byte
}

func (f annFields) build() []byte {
	b := make([]byte, 0, 128)
	b = append(b, f.connID...)
	b = binary.BigEndian.AppendUint32(b, f.action)
	b = append(b, f.tx...)
	b = append(b, f.ih...)
	b = append(b, f.pid...)
	b = binary.BigEndian.AppendUint64(b, f.dl)
	b = binary.BigEndian.AppendUint64(b, f.left)
	b = binary.BigEndian.AppendUint64(b, f.ul)
	b = binary.BigEndian.AppendUint32(b, f.event)
	b = append(b, f.ipField...)
	b = binary.BigEndian.AppendUint32(b, f.key)
	b = binary.BigEndian.AppendUint32(b, f.numWant)
	b = binary.BigEndian.AppendUint16(b, f.port)
	b = append(b, f.options...)
	return b
}

// encodeOptions cuts URL data into URLData options of random sizes, sprinkles NOPs, maybe ends with EndOfOptions.
func encodeOptions(r *Rng, urlData string) []byte {
	var out []byte
	d := []byte(urlData)
	for len(d) > 0 {
		if r.Intn(4) == 0 {
			out = append(out, 1)
		}
		n := 1 + r.Intn(255)
		if r.Intn(3) == 0 {
			n = 255
		}
		if n > len(d) {
			n = len(d)
		}
		if r.Intn(10) == 0 {
			out = append(out, 2, 0) // empty URLData option
		}
		out = append(out, 2, byte(n))
		out = append(out, d[:n]...)
		d = d[n:]
	}
	if r.Intn(4) == 0 {
		out = append(out, 1)
	}
	if r.Intn(3) == 0 {
		out = append(out, 0)
		if r.Intn(2) == 0 {
			out = append(out, r.Bytes(r.Intn(5))...) // bytes after EndOfOptions are ignored
		}
	}
	return out
}

func defaultUDPCase(r *Rng) udpCase {
	now := int64(1700000000)*1e9 + int64(r.Intn(1e9))
	uc := udpCase{now: now, skew: 10e9, maxnw: 100, defnw: 50, ms: 50, logic: "ok", interval: 1800e9, complete: uint32(r.Intn(50)), incomp: uint32(r.Intn(50)),
		c0: uint32(r.Intn(1000)), s0: uint32(r.Intn(1000)), i0: uint32(r.Intn(1000))}
	uc.src = []net.IP{{10, 1, 2, 3}, net.ParseIP("2001:db8::7"), {127, 0, 0, 1}}[r.Intn(3)]
	if ip4 := uc.src.To4(); ip4 != nil {
		uc.src = ip4
	}
	for i := r.Intn(4); i > 0; i-- {
		uc.p4 = append(uc.p4, r.Bytes(6))
		uc.p6 = append(uc.p6, r.Bytes(18))
	}
	return uc
}

func validConnID(uc udpCase, age time.Duration) []byte {
	return append([]byte{}, udpfe.NewConnectionID(uc.src, time.Unix(0, uc.now).Add(-age), udpKey)...)
}

func replayUDP(c *Ctx, op string, a map[string]string) {
	if op == "clock.stall" {
		ms, _ := strconv.Atoi(a["ms"])
		clockStall(c, ms)
		return
	}
	if op != "udp.handle" {
		return
	}
	i64 := func(k string) int64 { v, _ := strconv.ParseInt(a[k], 10, 64); return v }
	u32 := func(k string) uint32 { v, _ := strconv.ParseUint(a[k], 10, 32); return uint32(v) }
	list := func(k string) [][]byte {
		if a[k] == "-" || a[k] == "" {
			return nil
		}
		var out [][]byte
		for _, s := range strings.Split(a[k], ",") {
			out = append(out, unhx(s))
		}
		return out
	}
	uc := udpCase{pkt: unhx(a["pkt"]), src: net.IP(unhx(a["src"])), now: i64("now"), skew: i64("skew"), spoof: a["spoof"] == "1", maxnw: u32("maxnw"), defnw: u32("defnw"), ms: u32("maxscrape"),
		logic: a["logic"], interval: i64("interval"), complete: u32("complete"), incomp: u32("incomplete"), p4: list("p4"), p6: list("p6"), p4gen: int(i64("p4gen")), p6gen: int(i64("p6gen")), c0: u32("c0"), s0: u32("s0"), i0: u32("i0")}
	for _, p := range list("probe") {
		uc.probes = append(uc.probes, string(p))
	}
	udpHandle(c, uc)
}

func udpfeNewID(ip net.IP, unixSec int64) []byte {
	return udpfe.NewConnectionID(ip, time.Unix(unixSec, 0), udpKey)
}
func udpfeNewIDKey(ip net.IP, unixSec int64, key string) []byte {
	return udpfe.NewConnectionID(ip, time.Unix(unixSec, 0), key)
}
