package main

// trk.alias: a Logic runs exactly the hooks it was given, followed by its own response / swarm hook bound to its own
// store — whatever the capacity of the slices it was given (D33: NewLogic appended into the caller's backing array).
//  split:  one configured chain [pre-1, post-1] handed over as chain[:1], chain[1:]
//  shared: one pre-hook chain with spare capacity (what HooksFromHookConfigs returns), two Logics over two stores

import (
	"context"
	"fmt"
	"strings"
	"time"

	"github.com/chihaya/chihaya/bittorrent"
	"github.com/chihaya/chihaya/middleware"
	"github.com/chihaya/chihaya/storage"
	"github.com/chihaya/chihaya/storage/memory"
)

type aliasHook struct {
	name string
	log  *[]string
}

func (h *aliasHook) HandleAnnounce(ctx context.Context, _ *bittorrent.AnnounceRequest, _ *bittorrent.AnnounceResponse) (context.Context, error) {
	*h.log = append(*h.log, h.name)
	return ctx, nil
}
func (h *aliasHook) HandleScrape(ctx context.Context, _ *bittorrent.ScrapeRequest, _ *bittorrent.ScrapeResponse) (context.Context, error) {
	*h.log = append(*h.log, h.name)
	return ctx, nil
}

func trkAlias(c *Ctx) {
	op := "trk.alias"
	c.Begin(op)
	obs := func() (o string) {
		defer func() {
			if p := recover(); p != nil {
				o = "PANIC " + strings.Fields(fmt.Sprint(p))[0]
			}
		}()
		mk := func() storage.PeerStore {
			ps, err := memory.New(memory.Config{ShardCount: 2, GarbageCollectionInterval: time.Hour, PrometheusReportingInterval: time.Hour, PeerLifetime: time.Hour})
			if err != nil {
				panic(err)
			}
			return ps
		}
		peer := func(id string, last byte, port uint16) bittorrent.Peer {
			return bittorrent.Peer{ID: bittorrent.PeerIDFromString(id), IP: bittorrent.IP{IP: []byte{10, 0, 0, last}, AddressFamily: bittorrent.IPv4}, Port: port}
		}
		// split
		s0 := mk()
		defer func() { <-s0.Stop() }()
		var log []string
		chain := []middleware.Hook{&aliasHook{"pre-1", &log}, &aliasHook{"post-1", &log}}
		l := middleware.NewLogic(middleware.ResponseConfig{}, s0, chain[:1], chain[1:])
		ih := bittorrent.InfoHashFromString("verif-alias-infohash")
		req := &bittorrent.AnnounceRequest{InfoHash: ih, Left: 1, NumWant: 50, Peer: peer("-VF0001-announcer001", 1, 7001)}
		ctx, resp, err := l.HandleAnnounce(context.Background(), req)
		if err != nil {
			return "split-announce-failed"
		}
		l.AfterAnnounce(ctx, req, resp)
		// shared
		s1, s2 := mk(), mk()
		defer func() { <-s1.Stop(); <-s2.Stop() }()
		var log2 []string
		var pre []middleware.Hook
		for _, n := range []string{"pre-1", "pre-2", "pre-3"} { // len 3, cap 4
			pre = append(pre, &aliasHook{n, &log2})
		}
		l1 := middleware.NewLogic(middleware.ResponseConfig{}, s1, pre, nil)
		_ = middleware.NewLogic(middleware.ResponseConfig{}, s2, pre, nil)
		seeder := peer("-VF0001-seeder-ps001", 2, 7002)
		if err := s1.PutSeeder(ih, seeder); err != nil {
			return "put-failed"
		}
		req2 := &bittorrent.AnnounceRequest{InfoHash: ih, Left: 1, NumWant: 50, Peer: peer("-VF0001-announcer002", 3, 7003)}
		_, resp2, err := l1.HandleAnnounce(context.Background(), req2)
		if err != nil {
			return "shared-announce-failed"
		}
		own := resp2.Complete == 1 && len(resp2.IPv4Peers) == 1 && resp2.IPv4Peers[0].Equal(seeder)
		return fmt.Sprintf("split_hooks=%s spare_capacity=%s answered_from_own_store=%s", strings.Join(log, "+"), b01(cap(pre) > len(pre)), b01(own))
	}()
	c.Emit(op, obs)
}
