package main

// C06 (and the HTTP half of C11): the real frontend/http ParseAnnounce / ParseScrape on
// rendered, boundary and raw request URIs.

import (
	"errors"
	"fmt"
	"net"
	"net/http"
	"net/url"
	"sort"
	"strconv"
	"strings"

	"github.com/chihaya/chihaya/bittorrent"
	httpfe "github.com/chihaya/chihaya/frontend/http"
)

func init() { gens["C06"] = &Gen{Run: runC06, Replay: replayC06} }

type httpCase struct {
	uri                 string
	spoof               bool
	hdrName, hdrVal     string // hdrName=="" : no real-ip header configured; hdrVal=="" : header absent
	remoteAddr          string
	maxnw, defnw, maxsc uint32
}

func errClass(err error) string {
	var ce bittorrent.ClientError
	if errors.As(err, &ce) {
		return "err client"
	}
	return "err internal"
}

// envArgs computes, independently of the code under test, what the external functions
// (net.ParseIP, strings.ToLower, net.SplitHostPort) return for every string the request contains.
func envArgs(hc httpCase) string {
	query := hc.uri
	if i := strings.IndexByte(query, '?'); i >= 0 {
		query = query[i+1:]
	} else {
		query = ""
	}
	ipm := map[string]string{}
	lowm := map[string]string{}
	addIP := func(s string) {
		ip := net.ParseIP(s)
		if ip == nil {
			ipm[hx([]byte(s))] = "~"
		} else {
			ipm[hx([]byte(s))] = hx(ip)
		}
	}
	for _, seg := range strings.FieldsFunc(query, func(r rune) bool { return r == '&' || r == ';' }) {
		k, v := seg, ""
		if i := strings.IndexByte(seg, '='); i >= 0 {
			k, v = seg[:i], seg[i+1:]
		}
		if uk, err := url.QueryUnescape(k); err == nil {
			ascii := true
			for i := 0; i < len(uk); i++ {
				if uk[i] >= 0x80 {
					ascii = false
				}
			}
			if !ascii {
				lowm[hx([]byte(uk))] = hx([]byte(strings.ToLower(uk)))
			}
		}
		if uv, err := url.QueryUnescape(v); err == nil && len(uv) <= 64 {
			addIP(uv)
		}
	}
	host, _, err := net.SplitHostPort(hc.remoteAddr)
	addIP(host)
	if hc.hdrVal != "" {
		addIP(hc.hdrVal)
	}
	join := func(m map[string]string) string {
		if len(m) == 0 {
			return "-"
		}
		var ks []string
		for k := range m {
			ks = append(ks, k)
		}
		sort.Strings(ks)
		var p []string
		for _, k := range ks {
			p = append(p, k+":"+m[k])
		}
		return strings.Join(p, ",")
	}
	hdr := "~"
	if hc.hdrName != "" && hc.hdrVal != "" {
		hdr = hx([]byte(hc.hdrVal))
	}
	return fmt.Sprintf("spoof=%s hdrset=%s hdr=%s remote=%s remoteok=%s maxnw=%d defnw=%d maxscrape=%d ipmap=%s lowmap=%s",
		b01(hc.spoof), b01(hc.hdrName != ""), hdr, hx([]byte(host)), b01(err == nil), hc.maxnw, hc.defnw, hc.maxsc, join(ipm), join(lowm))
}

func (hc httpCase) request() (*http.Request, httpfe.ParseOptions) {
	r := &http.Request{Method: "GET", RequestURI: hc.uri, RemoteAddr: hc.remoteAddr, Header: http.Header{}}
	if hc.hdrVal != "" {
		name := hc.hdrName
		if name == "" {
			name = "X-Real-Ip"
		}
		r.Header.Set(name, hc.hdrVal)
	}
	return r, httpfe.ParseOptions{AllowIPSpoofing: hc.spoof, RealIPHeader: hc.hdrName, MaxNumWant: hc.maxnw, DefaultNumWant: hc.defnw, MaxScrapeInfoHashes: hc.maxsc}
}

func evNum(e bittorrent.Event) int {
	switch e {
	case bittorrent.None:
		return 0
	case bittorrent.Started:
		return 1
	case bittorrent.Stopped:
		return 2
	case bittorrent.Completed:
		return 3
	}
	return 99
}

func famStr(f bittorrent.AddressFamily) string {
	if f == bittorrent.IPv4 {
		return "4"
	}
	if f == bittorrent.IPv6 {
		return "6"
	}
	return "?"
}

func showAnnReq(req *bittorrent.AnnounceRequest) string {
	return fmt.Sprintf("ok ev=%d evp=%s ih=%s compact=%s nwp=%s ipp=%s nw=%d left=%d dl=%d ul=%d pid=%s port=%d ip=%s fam=%s",
		evNum(req.Event), b01(req.EventProvided), hx(req.InfoHash[:]), b01(req.Compact), b01(req.NumWantProvided), b01(req.IPProvided),
		req.NumWant, req.Left, req.Downloaded, req.Uploaded, hx(req.Peer.ID[:]), req.Peer.Port, hx(req.Peer.IP.IP), famStr(req.Peer.IP.AddressFamily))
}

func httpAnnounce(c *Ctx, hc httpCase) {
	r, opts := hc.request()
	obs := func() (o string) {
		defer func() {
			if p := recover(); p != nil {
				o = "PANIC " + strings.Fields(fmt.Sprint(p))[0]
			}
		}()
		req, err := httpfe.ParseAnnounce(r, opts)
		if err != nil {
			return errClass(err)
		}
		return showAnnReq(req)
	}()
	c.Emit("http.announce uri="+hx([]byte(hc.uri))+" "+envArgs(hc)+" hdrname="+hx([]byte(hc.hdrName))+" raddr="+hx([]byte(hc.remoteAddr)), obs)
}

func httpScrape(c *Ctx, hc httpCase) {
	r, opts := hc.request()
	obs := func() (o string) {
		defer func() {
			if p := recover(); p != nil {
				o = "PANIC " + strings.Fields(fmt.Sprint(p))[0]
			}
		}()
		req, err := httpfe.ParseScrape(r, opts)
		if err != nil {
			return errClass(err)
		}
		var l []string
		for _, ih := range req.InfoHashes {
			l = append(l, hx(ih[:]))
		}
		s := "-"
		if len(l) > 0 {
			s = strings.Join(l, ",")
		}
		return "ok ihs=" + s
	}()
	c.Emit("http.scrape uri="+hx([]byte(hc.uri))+" "+envArgs(hc)+" hdrname="+hx([]byte(hc.hdrName))+" raddr="+hx([]byte(hc.remoteAddr)), obs)
}

func replayC06(c *Ctx, op string, a map[string]string) {
	u := func(k string) uint32 { v, _ := strconv.ParseUint(a[k], 10, 32); return uint32(v) }
	hc := httpCase{uri: string(unhx(a["uri"])), spoof: a["spoof"] == "1", hdrName: string(unhx(a["hdrname"])), remoteAddr: string(unhx(a["raddr"])),
		maxnw: u("maxnw"), defnw: u("defnw"), maxsc: u("maxscrape")}
	if a["hdr"] != "~" {
		hc.hdrVal = string(unhx(a["hdr"]))
	}
	switch op {
	case "http.announce":
		httpAnnounce(c, hc)
	case "http.scrape":
		httpScrape(c, hc)
	}
}

// ---- generators -------------------------------------------------------------------------

// escByte writes one byte in one of its possible spellings.
func escByte(r *Rng, b byte, forKey bool, style int) string {
	safe := b != '%' && b != '+' && b != '&' && b != ';' && b != '?' && !(forKey && b == '=') && b != '#'
	switch {
	case b == ' ' && r.Intn(2) == 0 && style != 2:
		return "+"
	case safe && (style == 0 || (style == 1 && r.Intn(3) != 0)):
		return string([]byte{b})
	default:
		h := "0123456789abcdef"
		if r.Bool() {
			h = "0123456789ABCDEF"
		}
		h2 := "0123456789abcdef"
		if r.Bool() {
			h2 = "0123456789ABCDEF"
		}
		return "%" + string(h[b>>4]) + string(h2[b&15])
	}
}

func escStr(r *Rng, s string, forKey bool) string {
	style := r.Intn(3) // 0 minimal, 1 mixed, 2 everything escaped
	var sb strings.Builder
	for i := 0; i < len(s); i++ {
		sb.WriteString(escByte(r, s[i], forKey, style))
	}
	return sb.String()
}

type kv struct{ k, v string }

var sampleIPs = []string{"2001:db8::ffff:c000:201", "1::ffff:10.0.0.1", "::fffe:10.0.0.1", "64:ff9b::10.0.0.1", "10.1.2.3", "192.168.0.1", "0.0.0.0", "255.255.255.255", "2001:db8::1", "::1", "::ffff:10.9.8.7", "::", "fe80::1%eth0", "1.2.3", "256.1.1.1", "", "localhost", "1.2.3.4 ", "01.2.3.4", "::ffff:0:0"}
var sampleRemotes = []string{"10.1.2.3:4000", "[2001:db8::9]:4000", "[::ffff:10.7.7.7]:1", "[2001:db8::ffff:c000:201]:7", "[::fffe:10.0.0.1]:7", "[1::ffff:10.0.0.1]:9", "127.0.0.1:80", "[::1]:443", "10.1.2.3", "", "[::1]", "host:1", ":80", "1.2.3.4:5:6"}

func randCase(r *Rng) httpCase {
	hc := httpCase{spoof: r.Intn(3) == 0, remoteAddr: sampleRemotes[r.Intn(6)], maxnw: 100, defnw: 50, maxsc: 50}
	if r.Intn(3) == 0 { // other limits, including a default above the maximum and tiny ones
		pair := [][2]uint32{{10, 50}, {1, 1}, {50, 100}, {100, 100}, {3, 0}, {0, 7}, {1 << 31, 50}, {200, 199}}[r.Intn(8)]
		hc.maxnw, hc.defnw = pair[0], pair[1]
		hc.maxsc = []uint32{1, 2, 50, 3}[r.Intn(4)]
	}
	if r.Intn(4) == 0 {
		hc.remoteAddr = sampleRemotes[r.Intn(len(sampleRemotes))]
	}
	if r.Intn(4) == 0 {
		hc.hdrName = []string{"X-Real-Ip", "X-Forwarded-For", "x-real-ip"}[r.Intn(3)]
	}
	if r.Intn(4) == 0 {
		hc.hdrVal = sampleIPs[r.Intn(len(sampleIPs))]
	}
	switch r.Intn(6) {
	case 0:
		hc.maxnw, hc.defnw = uint32(r.Intn(5)), uint32(r.Intn(5))
	case 1:
		hc.maxnw, hc.defnw = 1<<32-1, 1<<32-1
	case 2:
		hc.maxnw, hc.defnw = 30, 60 // default above max
	}
	if r.Intn(3) == 0 {
		hc.maxsc = uint32(r.Intn(4))
	}
	return hc
}

var numEdge = []string{"0", "1", "50", "99", "100", "101", "65535", "65536", "4294967295", "4294967296", "18446744073709551615", "18446744073709551616",
	"-1", "+1", "", " 1", "1 ", "01", "000", "1e3", "0x10", "1_0", "٣", "99999999999999999999999"}

// renderedAnnounce builds a mostly valid announce URI from a field record.
func renderedAnnounce(r *Rng) string {
	f := map[string]string{
		"info_hash": string(r.Bytes(20)), "peer_id": string(r.Bytes(20)),
		"port": strconv.Itoa(1 + r.Intn(65535)), "left": strconv.FormatUint(r.U64()>>uint(r.Intn(64)), 10),
		"downloaded": strconv.FormatUint(r.U64()>>uint(r.Intn(64)), 10), "uploaded": strconv.FormatUint(r.U64()>>uint(r.Intn(64)), 10),
	}
	if r.Intn(3) == 0 {
		f["peer_id"] = "-TR2940-" + string(r.Bytes(12))
	}
	if r.Bool() {
		f["numwant"] = strconv.Itoa(r.Intn(200))
		if r.Intn(3) == 0 { // the edges of the cap: nothing, one, the maximum and just above, sign-bit and top values
			f["numwant"] = []string{"0", "1", "10", "11", "50", "51", "100", "101", "2147483647", "2147483648", "2147483748", "2147483658", "3000000000", "4294967295", "4294967296", "-1"}[r.Intn(16)]
		}
	}
	if r.Bool() {
		f["compact"] = []string{"1", "0", "", "true", "00", "2"}[r.Intn(6)]
	}
	if r.Bool() {
		f["event"] = []string{"started", "stopped", "completed", "none", "", "STARTED", "Completed", "paused", "start", "stopped "}[r.Intn(10)]
	}
	if r.Intn(3) == 0 {
		f[[]string{"ip", "ipv4", "ipv6"}[r.Intn(3)]] = sampleIPs[r.Intn(len(sampleIPs))]
	}
	if r.Intn(8) == 0 {
		f["ip"] = sampleIPs[r.Intn(len(sampleIPs))]
		f["ipv6"] = sampleIPs[r.Intn(len(sampleIPs))]
	}
	// one boundary mutation
	if r.Intn(3) == 0 {
		k := []string{"port", "left", "downloaded", "uploaded", "numwant"}[r.Intn(5)]
		f[k] = numEdge[r.Intn(len(numEdge))]
	}
	switch r.Intn(14) {
	case 0:
		delete(f, []string{"info_hash", "peer_id", "port", "left", "downloaded", "uploaded"}[r.Intn(6)])
	case 1:
		f["peer_id"] = string(r.Bytes([]int{0, 19, 21, 40}[r.Intn(4)]))
	case 2:
		f["info_hash"] = string(r.Bytes([]int{0, 19, 21, 40}[r.Intn(4)]))
	}
	var ps []kv
	for k, v := range f {
		ps = append(ps, kv{k, v})
	}
	sort.Slice(ps, func(i, j int) bool { return ps[i].k < ps[j].k })
	// duplicates: an earlier, different value for a non-infohash key (the last one must win)
	if r.Intn(4) == 0 {
		i := r.Intn(len(ps))
		if ps[i].k != "info_hash" {
			ps = append([]kv{{ps[i].k, numEdge[r.Intn(len(numEdge))]}}, ps...)
		} else if r.Intn(3) == 0 {
			ps = append(ps, kv{"info_hash", string(r.Bytes(20))})
		}
	}
	// unrelated extras
	for i := r.Intn(3); i > 0; i-- {
		ps = append(ps, kv{[]string{"key", "trackerid", "no_peer_id", "supportcrypto", "x", "İp", "Key", "\xff\xfe", "Info_Hash", "INFO_HASH", "peer_İd", "\u212aey", "İpv4", "left\u017f", "İPV6"}[r.Intn(15)], string(r.Bytes(r.Intn(6)))})
	}
	r2 := r.Fork()
	// shuffle
	for i := len(ps) - 1; i > 0; i-- {
		j := r2.Intn(i + 1)
		// keep relative order of equal keys so that "last wins" stays meaningful
		if ps[i].k != ps[j].k {
			ps[i], ps[j] = ps[j], ps[i]
		}
	}
	var segs []string
	for _, p := range ps {
		k := p.k
		if r.Intn(5) == 0 && k != "info_hash" {
			k = strings.ToUpper(k[:1]) + k[1:]
		}
		seg := escStr(r, k, true)
		if !(p.v == "" && r.Intn(3) == 0) {
			seg += "=" + escStr(r, p.v, false)
		}
		segs = append(segs, seg)
		if r.Intn(20) == 0 {
			segs = append(segs, "") // empty segment
		}
	}
	sep := "&"
	if r.Intn(6) == 0 {
		sep = ";"
	}
	path := []string{"/announce", "/", "", "/a/b/announce", "/ann%20ounce"}[r.Intn(5)]
	return path + "?" + strings.Join(segs, sep)
}

func renderedScrape(r *Rng) string {
	n := r.Pick(0, 1, 1, 2, 3, 5, 49, 50, 51, 60)
	var segs []string
	for i := 0; i < n; i++ {
		ih := r.Bytes(20)
		if r.Intn(30) == 0 {
			ih = r.Bytes(19 + r.Intn(3))
		}
		segs = append(segs, "info_hash="+escStr(r, string(ih), false))
		if r.Intn(10) == 0 {
			segs = append(segs, escStr(r, "extra", true)+"="+escStr(r, string(r.Bytes(3)), false))
		}
	}
	if n > 0 && r.Intn(5) == 0 {
		segs = append(segs, segs[0]) // repeat
	}
	return "/scrape?" + strings.Join(segs, "&")
}

func rawURI(r *Rng) string {
	alphabet := []string{"&", ";", "=", "%", "+", "?", "/", "info_hash", "peer_id", "port", "left", "ip", "%41", "%4", "%zz", "%%", "a", "1", "\x00", "\xff", "İ", " ", "#"}
	n := r.Intn(12)
	var sb strings.Builder
	for i := 0; i < n; i++ {
		if r.Intn(4) == 0 {
			sb.Write(r.Bytes(1 + r.Intn(3)))
		} else {
			sb.WriteString(alphabet[r.Intn(len(alphabet))])
		}
	}
	return sb.String()
}

func runC06(c *Ctx) {
	for _, l := range c.CorpusLines() {
		op, a := parseOp(l)
		replayC06(c, op, a)
	}
	r := c.R
	base := "/announce?info_hash=%01%02%03%04%05%06%07%08%09%0a%0b%0c%0d%0e%0f%10%11%12%13%14&peer_id=-TR2940-abcdefghijkl&downloaded=0&uploaded=0"
	def := httpCase{remoteAddr: "10.1.2.3:4000", maxnw: 100, defnw: 50, maxsc: 50}
	// boundary stream: each numeric field at each edge
	for _, f := range []string{"port", "left", "numwant"} {
		for _, v := range numEdge {
			hc := def
			hc.uri = base
			for _, g := range []string{"port", "left"} {
				if g != f {
					hc.uri += "&" + g + "=7"
				}
			}
			hc.uri += "&" + f + "=" + url.QueryEscape(v)
			httpAnnounce(c, hc)
			c.Kind("boundary")
		}
	}
	// source address grid (C11): source x parameter x spoof x header
	for _, remote := range sampleRemotes {
		for _, spoof := range []bool{false, true} {
			for _, pk := range []string{"", "ip", "ipv4", "ipv6"} {
				for _, pv := range []string{"9.9.9.9", "2001:db8::99", "::ffff:9.9.9.9", "0.0.0.0", "bogus", ""} {
					if pk == "" && pv != "" {
						continue
					}
					for _, hdr := range []string{"", "8.8.8.8", "2001:db8::8", "junk"} {
						hc := def
						hc.remoteAddr, hc.spoof, hc.hdrVal = remote, spoof, hdr
						if hdr != "" || r.Intn(4) == 0 {
							hc.hdrName = "X-Real-Ip"
						}
						hc.uri = base + "&port=6881&left=1"
						if pk != "" {
							hc.uri += "&" + pk + "=" + url.QueryEscape(pv)
						}
						httpAnnounce(c, hc)
						c.Kind("ipgrid")
					}
				}
			}
		}
	}
	for i := 0; i < c.N; i++ {
		hc := randCase(r)
		switch r.Intn(10) {
		case 0, 1, 2, 3, 4, 5:
			hc.uri = renderedAnnounce(r)
			httpAnnounce(c, hc)
			c.Kind("rendered-announce")
		case 6, 7:
			hc.uri = renderedScrape(r)
			httpScrape(c, hc)
			c.Kind("rendered-scrape")
		case 8:
			hc.uri = rawURI(r)
			httpAnnounce(c, hc)
			c.Kind("raw-announce")
		case 9:
			hc.uri = rawURI(r)
			httpScrape(c, hc)
			c.Kind("raw-scrape")
		}
	}
}

// C11H: the HTTP half of C11 — source address x client-supplied address x spoofing x header.
func init() { gens["C11H"] = &Gen{Run: runC11H, Replay: replayC06} }

func runC11H(c *Ctx) {
	for _, l := range c.CorpusLines() {
		op, a := parseOp(l)
		replayC06(c, op, a)
	}
	r := c.R
	base := "/announce?info_hash=%01%02%03%04%05%06%07%08%09%0a%0b%0c%0d%0e%0f%10%11%12%13%14&peer_id=-TR2940-abcdefghijkl&downloaded=0&uploaded=0&port=6881&left=1"
	for _, remote := range sampleRemotes {
		for _, spoof := range []bool{false, true} {
			for _, hdrName := range []string{"", "X-Real-Ip"} {
				for _, hdr := range []string{"", "8.8.8.8", "2001:db8::8", "::ffff:8.8.4.4", "junk"} {
					for _, keys := range [][]string{{}, {"ip"}, {"ipv4"}, {"ipv6"}, {"ip", "ipv6"}, {"ipv4", "ipv6"}, {"ipv6", "ip"}, {"IP"}, {"ip", "ip"}} {
						hc := httpCase{remoteAddr: remote, spoof: spoof, hdrName: hdrName, hdrVal: hdr, maxnw: 100, defnw: 50, maxsc: 50, uri: base}
						for _, k := range keys {
							hc.uri += "&" + k + "=" + escStr(r, sampleIPs[r.Intn(len(sampleIPs))], false)
						}
						httpAnnounce(c, hc)
						c.Kind("grid")
					}
				}
			}
		}
	}
	for i := 0; i < c.N; i++ {
		hc := randCase(r)
		hc.spoof = r.Bool()
		hc.uri = renderedAnnounce(r)
		if r.Bool() {
			hc.uri += "&" + []string{"ip", "ipv4", "ipv6"}[r.Intn(3)] + "=" + escStr(r, sampleIPs[r.Intn(len(sampleIPs))], false)
		}
		httpAnnounce(c, hc)
		c.Kind("rendered")
	}
}
