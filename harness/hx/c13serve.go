package main

// C13, through the real socket: a sequence of datagrams (empty, runt, garbage, connect with a bad magic, unknown
// action, and well-formed connect / announce / scrape) is sent to a *serving* UDP frontend; every well-formed
// request must be answered exactly once — in particular after whatever came before it — and runts get silence.

import (
	"encoding/binary"
	"fmt"
	"net"
	"strings"
	"time"

	udpfe "github.com/chihaya/chihaya/frontend/udp"
)

func udpServed(c *Ctx, kinds []string) {
	op := "udp.served seq=" + strings.Join(kinds, ",")
	c.Begin(op)
	obs := func() (o string) {
		defer func() {
			if p := recover(); p != nil {
				o = "PANIC " + strings.Fields(fmt.Sprint(p))[0]
			}
		}()
		ps, lg := newStoreLogic()
		defer func() { <-ps.Stop() }()
		pc, err := net.ListenUDP("udp", &net.UDPAddr{IP: net.IPv4(127, 0, 0, 1)})
		if err != nil {
			return "no-port"
		}
		port := pc.LocalAddr().(*net.UDPAddr).Port
		pc.Close()
		fe, err := udpfe.NewFrontend(lg, udpfe.Config{Addr: fmt.Sprintf("127.0.0.1:%d", port), PrivateKey: udpKey, MaxClockSkew: 10 * time.Second})
		if err != nil {
			return "new-failed"
		}
		defer func() { <-fe.Stop() }()
		cl, _ := net.DialUDP("udp", nil, &net.UDPAddr{IP: net.IPv4(127, 0, 0, 1), Port: port})
		defer cl.Close()
		buf := make([]byte, 4096)
		read := func(wait time.Duration) string {
			_ = cl.SetReadDeadline(time.Now().Add(wait))
			n, err := cl.Read(buf)
			if err != nil {
				return "none"
			}
			if n < 8 {
				return "short"
			}
			cls := []string{"connect", "announce", "scrape", "error"}
			a := binary.BigEndian.Uint32(buf[:4])
			out := "other"
			if int(a) < len(cls) {
				out = cls[a]
			}
			// nothing else may follow
			_ = cl.SetReadDeadline(time.Now().Add(15 * time.Millisecond))
			if _, err := cl.Read(make([]byte, 4096)); err == nil {
				out += "+extra"
			}
			return out
		}
		connect := func() []byte { return append([]byte{0, 0, 0x04, 0x17, 0x27, 0x10, 0x19, 0x80, 0, 0, 0, 0}, 9, 9, 9, 9) }
		// wait until it serves
		var connID []byte
		for i := 0; i < 200 && connID == nil; i++ {
			_, _ = cl.Write(connect())
			_ = cl.SetReadDeadline(time.Now().Add(20 * time.Millisecond))
			if n, err := cl.Read(buf); err == nil && n == 16 {
				connID = append([]byte{}, buf[8:16]...)
			}
		}
		if connID == nil {
			return "never-served"
		}
		var res []string
		for _, k := range kinds {
			wait := 400 * time.Millisecond
			switch k {
			case "E":
				_, _ = cl.Write([]byte{})
				wait = 60 * time.Millisecond
			case "S":
				_, _ = cl.Write([]byte{1, 2, 3, 4, 5, 6, 7})
				wait = 60 * time.Millisecond
			case "M": // action 0 without the magic constant
				_, _ = cl.Write(append(make([]byte, 12), 1, 1, 1, 1))
				wait = 60 * time.Millisecond
			case "G": // announce-sized garbage under an invalid connection ID
				g := make([]byte, 98)
				g[11] = 1
				_, _ = cl.Write(g)
			case "U":
				p := append(append([]byte{}, connID...), 0, 0, 0, 7, 5, 5, 5, 5)
				_, _ = cl.Write(p)
			case "C":
				_, _ = cl.Write(connect())
			case "A":
				_, _ = cl.Write(udpAnnouncePacket(connID))
			case "X":
				p := append(append([]byte{}, connID...), 0, 0, 0, 2, 6, 6, 6, 6)
				p = append(p, []byte("aaaaaaaaaaaaaaaaaaaa")...)
				_, _ = cl.Write(p)
			}
			r := read(wait)
			if k == "C" && r == "connect" {
				connID = append([]byte{}, buf[8:16]...)
			}
			res = append(res, r)
		}
		return "answers=" + strings.Join(res, ",")
	}()
	c.Emit(op, obs)
}

func genServed(c *Ctx, r *Rng, n int) {
	kinds := []string{"E", "S", "M", "G", "U", "C", "A", "X"}
	for i := 0; i < n; i++ {
		var seq []string
		for k := 0; k < 2+r.Intn(5); k++ {
			seq = append(seq, kinds[r.Intn(len(kinds))])
		}
		seq = append(seq, "C", "A") // whatever came before: still answering
		udpServed(c, seq)
		c.Kind("udp-served")
	}
}
