package main

// C13, through the real socket: a sequence of datagrams (empty, runt, garbage, connect with a bad magic, unknown
// action, and well-formed connect / announce / scrape) is sent to a *serving* UDP frontend; every well-formed
// request must be answered exactly once — in particular after whatever came before it — and runts get silence.

import (
	"context"
	"encoding/binary"
	"fmt"
	"github.com/chihaya/chihaya/bittorrent"
	"net"
	"strings"
	"sync/atomic"
	"time"

	udpfe "github.com/chihaya/chihaya/frontend/udp"
)

func udpServed(c *Ctx, kinds []string) {
	op := "udp.served seq=" + strings.Join(kinds, ",")
	c.Begin(op)
	obs := func() (o string) {
		defer func() {
			if p := recover(); p != nil {
				o = "PANIC " + strings.Fields(fmt.Sprint(p))[0]
			}
		}()
		ps, lg := newStoreLogic()
		defer func() { <-ps.Stop() }()
		pc, err := net.ListenUDP("udp", &net.UDPAddr{IP: net.IPv4(127, 0, 0, 1)})
		if err != nil {
			return "no-port"
		}
		port := pc.LocalAddr().(*net.UDPAddr).Port
		pc.Close()
		fe, err := udpfe.NewFrontend(lg, udpfe.Config{Addr: fmt.Sprintf("127.0.0.1:%d", port), PrivateKey: udpKey, MaxClockSkew: 10 * time.Second, EnableRequestTiming: true})
		if err != nil {
			return "new-failed"
		}
		defer func() { <-fe.Stop() }()
		cl, _ := net.DialUDP("udp", nil, &net.UDPAddr{IP: net.IPv4(127, 0, 0, 1), Port: port})
		defer cl.Close()
		buf := make([]byte, 4096)
		read := func(wait time.Duration) string {
			_ = cl.SetReadDeadline(time.Now().Add(wait))
			n, err := cl.Read(buf)
			if err != nil {
				return "none"
			}
			if n < 8 {
				return "short"
			}
			cls := []string{"connect", "announce", "scrape", "error"}
			a := binary.BigEndian.Uint32(buf[:4])
			out := "other"
			if int(a) < len(cls) {
				out = cls[a]
			}
			// nothing else may follow
			_ = cl.SetReadDeadline(time.Now().Add(15 * time.Millisecond))
			if _, err := cl.Read(make([]byte, 4096)); err == nil {
				out += "+extra"
			}
			return out
		}
		connect := func() []byte { return append([]byte{0, 0, 0x04, 0x17, 0x27, 0x10, 0x19, 0x80, 0, 0, 0, 0}, 9, 9, 9, 9) }
		// wait until it serves
		var connID []byte
		for i := 0; i < 200 && connID == nil; i++ {
			_, _ = cl.Write(connect())
			_ = cl.SetReadDeadline(time.Now().Add(20 * time.Millisecond))
			if n, err := cl.Read(buf); err == nil && n == 16 {
				connID = append([]byte{}, buf[8:16]...)
			}
		}
		if connID == nil {
			return "never-served"
		}
		var res []string
		for _, k := range kinds {
			wait := 1500 * time.Millisecond
			switch k {
			case "E":
				_, _ = cl.Write([]byte{})
				wait = 60 * time.Millisecond
			case "S":
				_, _ = cl.Write([]byte{1, 2, 3, 4, 5, 6, 7})
				wait = 60 * time.Millisecond
			case "M": // action 0 without the magic constant
				_, _ = cl.Write(append(make([]byte, 12), 1, 1, 1, 1))
				wait = 60 * time.Millisecond
			case "G": // announce-sized garbage under an invalid connection ID
				g := make([]byte, 98)
				g[11] = 1
				_, _ = cl.Write(g)
			case "U":
				p := append(append([]byte{}, connID...), 0, 0, 0, 7, 5, 5, 5, 5)
				_, _ = cl.Write(p)
			case "C":
				_, _ = cl.Write(connect())
			case "A":
				_, _ = cl.Write(udpAnnouncePacket(connID))
			case "X":
				p := append(append([]byte{}, connID...), 0, 0, 0, 2, 6, 6, 6, 6)
				p = append(p, []byte("aaaaaaaaaaaaaaaaaaaa")...)
				_, _ = cl.Write(p)
			}
			r := read(wait)
			if k == "C" && r == "connect" {
				connID = append([]byte{}, buf[8:16]...)
			}
			res = append(res, r)
		}
		return "answers=" + strings.Join(res, ",")
	}()
	c.Emit(op, obs)
}

// holdLogic parks announces inside HandleAnnounce while `hold` is armed
type holdLogic struct {
	inner interface {
		HandleAnnounce(context.Context, *bittorrent.AnnounceRequest) (context.Context, *bittorrent.AnnounceResponse, error)
		AfterAnnounce(context.Context, *bittorrent.AnnounceRequest, *bittorrent.AnnounceResponse)
		HandleScrape(context.Context, *bittorrent.ScrapeRequest) (context.Context, *bittorrent.ScrapeResponse, error)
		AfterScrape(context.Context, *bittorrent.ScrapeRequest, *bittorrent.ScrapeResponse)
	}
	hold    chan struct{}
	entered int32
}

func (h *holdLogic) HandleAnnounce(ctx context.Context, req *bittorrent.AnnounceRequest) (context.Context, *bittorrent.AnnounceResponse, error) {
	atomic.AddInt32(&h.entered, 1)
	<-h.hold
	return h.inner.HandleAnnounce(ctx, req)
}
func (h *holdLogic) AfterAnnounce(ctx context.Context, req *bittorrent.AnnounceRequest, resp *bittorrent.AnnounceResponse) {
	h.inner.AfterAnnounce(ctx, req, resp)
}
func (h *holdLogic) HandleScrape(ctx context.Context, req *bittorrent.ScrapeRequest) (context.Context, *bittorrent.ScrapeResponse, error) {
	return h.inner.HandleScrape(ctx, req)
}
func (h *holdLogic) AfterScrape(ctx context.Context, req *bittorrent.ScrapeRequest, resp *bittorrent.ScrapeResponse) {
	h.inner.AfterScrape(ctx, req, resp)
}

// udp.overlap: through the real socket, an announce is parked inside the logic while an empty datagram and a
// burst of connects arrive; every connect is answered with its own transaction ID and, once released, the announce
// is answered with *its* transaction ID: no request's bytes are disturbed by the requests that overlap it.
func udpOverlap(c *Ctx, prelude string, burst int) {
	op := fmt.Sprintf("udp.overlap prelude=%s burst=%d", prelude, burst)
	c.Begin(op)
	obs := func() (o string) {
		defer func() {
			if p := recover(); p != nil {
				o = "PANIC " + strings.Fields(fmt.Sprint(p))[0]
			}
		}()
		ps, lg := newStoreLogic()
		defer func() { <-ps.Stop() }()
		hl := &holdLogic{inner: lg, hold: make(chan struct{})}
		pc, err := net.ListenUDP("udp", &net.UDPAddr{IP: net.IPv4(127, 0, 0, 1)})
		if err != nil {
			return "no-port"
		}
		port := pc.LocalAddr().(*net.UDPAddr).Port
		pc.Close()
		fe, err := udpfe.NewFrontend(hl, udpfe.Config{Addr: fmt.Sprintf("127.0.0.1:%d", port), PrivateKey: udpKey, MaxClockSkew: 10 * time.Second})
		if err != nil {
			return "new-failed"
		}
		released := false
		defer func() {
			if !released {
				close(hl.hold)
			}
			<-fe.Stop()
		}()
		cl, _ := net.DialUDP("udp", nil, &net.UDPAddr{IP: net.IPv4(127, 0, 0, 1), Port: port})
		defer cl.Close()
		buf := make([]byte, 4096)
		connect := func(tx uint32) []byte {
			b := []byte{0, 0, 0x04, 0x17, 0x27, 0x10, 0x19, 0x80, 0, 0, 0, 0, 0, 0, 0, 0}
			binary.BigEndian.PutUint32(b[12:], tx)
			return b
		}
		var connID []byte
		for i := 0; i < 200 && connID == nil; i++ {
			_, _ = cl.Write(connect(1))
			_ = cl.SetReadDeadline(time.Now().Add(20 * time.Millisecond))
			if n, err := cl.Read(buf); err == nil && n == 16 {
				connID = append([]byte{}, buf[8:16]...)
			}
		}
		if connID == nil {
			return "never-served"
		}
		for _, k := range strings.Split(prelude, ",") {
			switch k {
			case "E":
				_, _ = cl.Write([]byte{})
			case "S":
				_, _ = cl.Write([]byte{1, 2, 3})
			}
		}
		time.Sleep(20 * time.Millisecond)
		ann := udpAnnouncePacket(connID)
		copy(ann[12:16], []byte{0xAA, 0xBB, 0xCC, 0xDD})
		_, _ = cl.Write(ann)
		for i := 0; i < 500 && atomic.LoadInt32(&hl.entered) == 0; i++ {
			time.Sleep(time.Millisecond)
		}
		if atomic.LoadInt32(&hl.entered) == 0 {
			return "announce-not-entered"
		}
		okConn, bad := 0, 0
		for i := 0; i < burst; i++ {
			tx := uint32(0x1000 + i)
			_, _ = cl.Write(connect(tx))
			_ = cl.SetReadDeadline(time.Now().Add(300 * time.Millisecond))
			n, err := cl.Read(buf)
			switch {
			case err != nil:
				bad++
			case n == 16 && binary.BigEndian.Uint32(buf[:4]) == 0 && binary.BigEndian.Uint32(buf[4:8]) == tx:
				okConn++
			default:
				bad++
			}
		}
		released = true
		close(hl.hold)
		annOK := false
		_ = cl.SetReadDeadline(time.Now().Add(time.Second))
		if n, err := cl.Read(buf); err == nil && n >= 20 && binary.BigEndian.Uint32(buf[:4]) == 1 && string(buf[4:8]) == "\xaa\xbb\xcc\xdd" {
			annOK = true
		}
		return fmt.Sprintf("connects_ok=%d bad=%d announce_answered_with_its_tx=%s", okConn, bad, b01(annOK))
	}()
	c.Emit(op, obs)
}

func genServed(c *Ctx, r *Rng, n int) {
	for _, pre := range []string{"-", "E", "E,E,S", "S"} {
		udpOverlap(c, pre, 8)
	}
	kinds := []string{"E", "S", "M", "G", "U", "C", "A", "X"}
	for i := 0; i < n; i++ {
		var seq []string
		for k := 0; k < 2+r.Intn(5); k++ {
			seq = append(seq, kinds[r.Intn(len(kinds))])
		}
		seq = append(seq, "C", "A") // whatever came before: still answering
		udpServed(c, seq)
		c.Kind("udp-served")
	}
}
