package main

import (
	"net/url"
	"runtime"
	"strings"
	"time"
)

func urlQueryUnescape(s string) (string, error) { return url.QueryUnescape(s) }

// addresses that look almost like IPv4-mapped ones (::ffff:a.b.c.d) but are genuine IPv6: the ff ff marker with a
// non-zero prefix, a zero prefix with another marker, NAT64, and friends
var nearMappedV6 = []string{"2001:db8::ffff:c000:201", "1::ffff:10.0.0.1", "::fffe:10.0.0.1", "::1:ffff:10.0.0.1", "64:ff9b::10.0.0.1",
	"::ffff:0:10.0.0.1", "0:0:0:0:1:ffff:a00:1", "ffff::ffff:10.0.0.1"}

// goroutinesOf counts the goroutines of this process whose stack has a frame in a function whose name contains sub
// (e.g. "chihaya/pkg/metrics."). Scenarios take the count before they create a component and after its Stop has
// completed: "its goroutines have exited" means the two are equal.
func goroutinesOf(sub string) int {
	buf := make([]byte, 1<<22)
	n := runtime.Stack(buf, true)
	c := 0
	for _, g := range strings.Split(string(buf[:n]), "\n\n") {
		if strings.Contains(g, sub) {
			c++
		}
	}
	return c
}

// goroutinesLeft: how many more goroutines of sub there are than before (g0), once those that are merely on their
// way out (a Stop's own helper goroutine delivering its result) have had a moment to return.
func goroutinesLeft(sub string, g0 int) int {
	left := goroutinesOf(sub) - g0
	for i := 0; i < 20 && left > 0; i++ {
		time.Sleep(10 * time.Millisecond)
		left = goroutinesOf(sub) - g0
	}
	if left < 0 {
		// fewer than before: a goroutine of an earlier scenario was still on its way out when the baseline was
		// taken (seen once, on a loaded machine, as goroutines_left=-1). Nothing of this scenario is left.
		left = 0
	}
	return left
}
