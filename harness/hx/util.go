package main

import "net/url"

func urlQueryUnescape(s string) (string, error) { return url.QueryUnescape(s) }

// addresses that look almost like IPv4-mapped ones (::ffff:a.b.c.d) but are genuine IPv6: the ff ff marker with a
// non-zero prefix, a zero prefix with another marker, NAT64, and friends
var nearMappedV6 = []string{"2001:db8::ffff:c000:201", "1::ffff:10.0.0.1", "::fffe:10.0.0.1", "::1:ffff:10.0.0.1", "64:ff9b::10.0.0.1",
	"::ffff:0:10.0.0.1", "0:0:0:0:1:ffff:a00:1", "ffff::ffff:10.0.0.1"}
