package main

import "net/url"

func urlQueryUnescape(s string) (string, error) { return url.QueryUnescape(s) }
