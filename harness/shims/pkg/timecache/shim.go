//go:build verif

package timecache

import "sync/atomic"

// Overlay-only shim (never part of /repo): lets the verification harness pin the cached clock.

// VerifSetClock stops the global ticker (idempotent) and sets the cached clock.
func VerifSetClock(ns int64) {
	t.Stop()
	atomic.StoreInt64(&t.clock, ns)
}
