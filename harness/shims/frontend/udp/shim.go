//go:build verif

package udp

// Overlay-only shim (never part of /repo): a Frontend that is not serving, and a door to
// handleRequest, for the verification harness.

import (
	"net"
	"sync"

	"github.com/chihaya/chihaya/frontend"
)

// VerifNewFrontend mirrors NewFrontend without starting serve(): the socket is bound to a
// loopback port only so that responses have somewhere to be written from.
func VerifNewFrontend(logic frontend.TrackerLogic, provided Config) (*Frontend, error) {
	cfg := provided.Validate()
	f := &Frontend{
		closing: make(chan struct{}),
		logic:   logic,
		Config:  cfg,
		genPool: &sync.Pool{
			New: func() interface{} {
				return NewConnectionIDGenerator(cfg.PrivateKey)
			},
		},
	}
	sock, err := net.ListenUDP("udp", &net.UDPAddr{IP: net.IPv4(127, 0, 0, 1), Port: 0})
	if err != nil {
		return nil, err
	}
	f.socket = sock
	return f, nil
}

// VerifHandle runs handleRequest on one datagram; the response (if any) is sent to `to`.
func (t *Frontend) VerifHandle(packet []byte, ip net.IP, to *net.UDPAddr) error {
	_, _, err := t.handleRequest(Request{Packet: packet, IP: ip}, ResponseWriter{t.socket, to})
	return err
}

// VerifClose releases the socket.
func (t *Frontend) VerifClose() { _ = t.socket.Close() }

// VerifSentinel sends a marker datagram from the frontend's socket. Datagrams from one socket to
// another over loopback are delivered in order, so everything the harness reads before the marker
// is what handleRequest wrote.
func (t *Frontend) VerifSentinel(to *net.UDPAddr) {
	_, _ = t.socket.WriteToUDP([]byte("\xffVERIF-SENTINEL\xff"), to)
}
