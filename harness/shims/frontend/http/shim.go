//go:build verif

package http

// Overlay-only shim (never part of /repo): the request handler of a Frontend that is not listening.

import (
	"net/http"

	"github.com/chihaya/chihaya/frontend"
)

// VerifStoppingHandler: the router of a Frontend whose Stop has begun (requests are turned away at the door).
func VerifStoppingHandler(logic frontend.TrackerLogic, provided Config) http.Handler {
	cfg := provided.Validate()
	f := &Frontend{logic: logic, Config: cfg}
	f.mu.Lock()
	f.stopping = true
	f.mu.Unlock()
	return f.handler()
}

// VerifHandler mirrors NewFrontend up to (and excluding) listening and returns the router.
func VerifHandler(logic frontend.TrackerLogic, provided Config) http.Handler {
	cfg := provided.Validate()
	f := &Frontend{logic: logic, Config: cfg}
	return f.handler()
}
