//go:build verif

package http

// Overlay-only shim (never part of /repo): the request handler of a Frontend that is not listening.

import (
	"net/http"

	"github.com/chihaya/chihaya/frontend"
)

// VerifHandler mirrors NewFrontend up to (and excluding) listening and returns the router.
func VerifHandler(logic frontend.TrackerLogic, provided Config) http.Handler {
	cfg := provided.Validate()
	f := &Frontend{logic: logic, Config: cfg}
	return f.handler()
}
