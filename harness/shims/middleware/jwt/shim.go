//go:build verif

package jwt

// Overlay-only shim (never part of /repo): synchronous key refresh for the verification harness.

import "github.com/chihaya/chihaya/middleware"

// VerifUpdateKeys fetches the JWK set once, as the periodic refresh does.
func VerifUpdateKeys(h middleware.Hook) error { return h.(*hook).updateKeys() }
