//go:build verif

package memory

// Overlay-only shim (never part of /repo): doors into the memory store for the verification harness.

import (
	"time"

	"github.com/chihaya/chihaya/storage"
)

// VerifSwarm is a copy of one swarm.
type VerifSwarm struct {
	InfoHash [20]byte
	V6       bool
	Seeders  map[string]int64
	Leechers map[string]int64
}

// VerifDump copies the whole store under the shard locks, plus the per-shard counters
// (number of swarms, numSeeders, numLeechers).
func VerifDump(s storage.PeerStore) (swarms []VerifSwarm, shards [][3]uint64) {
	ps := s.(*peerStore)
	for i, sh := range ps.shards {
		sh.RLock()
		for ih, sw := range sh.swarms {
			vs := VerifSwarm{InfoHash: ih, V6: i >= len(ps.shards)/2, Seeders: map[string]int64{}, Leechers: map[string]int64{}}
			for pk, t := range sw.seeders {
				vs.Seeders[string(pk)] = t
			}
			for pk, t := range sw.leechers {
				vs.Leechers[string(pk)] = t
			}
			swarms = append(swarms, vs)
		}
		shards = append(shards, [3]uint64{uint64(len(sh.swarms)), sh.numSeeders, sh.numLeechers})
		sh.RUnlock()
	}
	return
}

// VerifCollectGarbage runs one expiry pass with the given cutoff.
func VerifCollectGarbage(s storage.PeerStore, cutoffNs int64) error {
	return s.(*peerStore).collectGarbage(time.Unix(0, cutoffNs))
}

// VerifPopulateProm runs the metrics aggregation once.
func VerifPopulateProm(s storage.PeerStore) { s.(*peerStore).populateProm() }

// VerifHoldShard takes the write lock of shard i and returns the function that releases it (to park an expiry
// pass in the middle of its work).
func VerifHoldShard(s storage.PeerStore, i int) func() {
	sh := s.(*peerStore).shards[i]
	sh.Lock()
	return sh.Unlock
}
