//go:build verif

package redis

// Overlay-only shim (never part of /repo): exported doors for the verification harness.

// VerifParseRedisURL exposes parseRedisURL.
func VerifParseRedisURL(s string) (host, password string, db int, err error) {
	u, err := parseRedisURL(s)
	if err != nil {
		return "", "", 0, err
	}
	return u.Host, u.Password, u.DB, nil
}
