//go:build verif

package redis

import redigolib "github.com/gomodule/redigo/redis"

// Overlay-only shim (never part of /repo): exported doors for the verification harness.

// VerifParseRedisURL exposes parseRedisURL.
func VerifParseRedisURL(s string) (host, password string, db int, err error) {
	u, err := parseRedisURL(s)
	if err != nil {
		return "", "", 0, err
	}
	return u.Host, u.Password, u.DB, nil
}

// VerifCollectGarbage runs one expiry pass with the given cutoff.
func VerifCollectGarbage(s interface{}, cutoffNs int64) error {
	return s.(*peerStore).collectGarbage(timeUnix(cutoffNs))
}

// VerifPopulateProm runs the metrics aggregation once.
func VerifPopulateProm(s interface{}) { s.(*peerStore).populateProm() }

// VerifHookBeforeDo makes every connection of this store call hook(commandName) before each
// round trip (Do); a pipelined MULTI…EXEC is one round trip. Used to place another instance's
// operation between two round trips of this one.
func VerifHookBeforeDo(s interface{}, hook func(cmd string)) {
	ps := s.(*peerStore)
	inner := ps.rb.pool.Dial
	ps.rb.pool = &redigolib.Pool{
		MaxIdle: 3,
		Dial: func() (redigolib.Conn, error) {
			c, err := inner()
			if err != nil {
				return nil, err
			}
			return hookConn{Conn: c, hook: hook}, nil
		},
	}
}
