//go:build verif

package redis

// Overlay-only shim (never part of /repo): exported doors for the verification harness.

// VerifParseRedisURL exposes parseRedisURL.
func VerifParseRedisURL(s string) (host, password string, db int, err error) {
	u, err := parseRedisURL(s)
	if err != nil {
		return "", "", 0, err
	}
	return u.Host, u.Password, u.DB, nil
}

// VerifCollectGarbage runs one expiry pass with the given cutoff.
func VerifCollectGarbage(s interface{}, cutoffNs int64) error {
	return s.(*peerStore).collectGarbage(timeUnix(cutoffNs))
}

// VerifPopulateProm runs the metrics aggregation once.
func VerifPopulateProm(s interface{}) { s.(*peerStore).populateProm() }
