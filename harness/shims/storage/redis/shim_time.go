//go:build verif

package redis

import "time"

func timeUnix(ns int64) time.Time { return time.Unix(0, ns) }
