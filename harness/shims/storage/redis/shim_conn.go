//go:build verif

package redis

import (
	"errors"
	"sync/atomic"

	redigolib "github.com/gomodule/redigo/redis"
)

type hookConn struct {
	redigolib.Conn
	hook func(cmd string)
}

func (c hookConn) Do(cmd string, args ...interface{}) (interface{}, error) {
	if cmd != "" {
		c.hook(cmd)
	}
	return c.Conn.Do(cmd, args...)
}

// ---- fault injection: while the flag is set every command of every connection of this store fails the way a
// lost Redis does (the error text carries an address and a marker that must never reach a client)

type failConn struct {
	redigolib.Conn
	fail *int32
}

var errRedisDown = errors.New("dial tcp 10.0.0.5:6379: connect: connection refused SECRET-redis-down")

func (c failConn) down() bool { return atomic.LoadInt32(c.fail) != 0 }
func (c failConn) Do(cmd string, args ...interface{}) (interface{}, error) {
	if c.down() {
		return nil, errRedisDown
	}
	return c.Conn.Do(cmd, args...)
}
func (c failConn) Send(cmd string, args ...interface{}) error {
	if c.down() {
		return errRedisDown
	}
	return c.Conn.Send(cmd, args...)
}
func (c failConn) Flush() error {
	if c.down() {
		return errRedisDown
	}
	return c.Conn.Flush()
}
func (c failConn) Receive() (interface{}, error) {
	if c.down() {
		return nil, errRedisDown
	}
	return c.Conn.Receive()
}

// VerifFailSwitch installs the switch (once per store) and returns it.
func VerifFailSwitch(s interface{}) *int32 {
	ps := s.(*peerStore)
	flag := new(int32)
	inner := ps.rb.pool.Dial
	ps.rb.pool = &redigolib.Pool{
		MaxIdle: 3,
		Dial: func() (redigolib.Conn, error) {
			c, err := inner()
			if err != nil {
				return nil, err
			}
			return failConn{Conn: c, fail: flag}, nil
		},
	}
	return flag
}

// ---- tracing: every command of every connection of this store is announced before it is sent (Do only: a round
// trip) and reported after its reply, together with the commands that were pipelined (Send) since the last round trip

type traceConn struct {
	redigolib.Conn
	before func(cmd string)
	after  func(cmd string, sent [][]interface{}, reply interface{}, err error)
	sent   *[][]interface{}
}

func (c traceConn) Send(cmd string, args ...interface{}) error {
	*c.sent = append(*c.sent, append([]interface{}{cmd}, args...))
	return c.Conn.Send(cmd, args...)
}

func (c traceConn) Do(cmd string, args ...interface{}) (interface{}, error) {
	if cmd == "" {
		return c.Conn.Do(cmd, args...)
	}
	c.before(cmd)
	reply, err := c.Conn.Do(cmd, args...)
	sent := *c.sent
	*c.sent = nil
	c.after(cmd, sent, reply, err)
	return reply, err
}

// VerifTraceConn installs the two callbacks on every connection this store opens from now on.
func VerifTraceConn(s interface{}, before func(cmd string), after func(cmd string, sent [][]interface{}, reply interface{}, err error)) {
	ps := s.(*peerStore)
	inner := ps.rb.pool.Dial
	ps.rb.pool = &redigolib.Pool{
		MaxIdle: 3,
		Dial: func() (redigolib.Conn, error) {
			c, err := inner()
			if err != nil {
				return nil, err
			}
			return traceConn{Conn: c, before: before, after: after, sent: new([][]interface{})}, nil
		},
	}
}
