//go:build verif

package redis

import redigolib "github.com/gomodule/redigo/redis"

type hookConn struct {
	redigolib.Conn
	hook func(cmd string)
}

func (c hookConn) Do(cmd string, args ...interface{}) (interface{}, error) {
	if cmd != "" {
		c.hook(cmd)
	}
	return c.Conn.Do(cmd, args...)
}
