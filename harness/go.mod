module verif/harness

go 1.16

require (
	github.com/alicebob/miniredis v2.5.0+incompatible
	github.com/chihaya/chihaya v0.0.0
)

replace github.com/chihaya/chihaya => /repo
