module verif/harness

go 1.16

require (
	github.com/alicebob/miniredis v2.5.0+incompatible
	github.com/anacrolix/torrent v1.40.0
	github.com/chihaya/chihaya v0.0.0
	github.com/prometheus/client_model v0.2.0
)

replace github.com/chihaya/chihaya => /repo
